#!/bin/bash
# tools/seedconfirm.sh : re-confirms every stored seed against the current /repo HEAD in a scratch
# worktree (tools/seedcheck.sh) and records the result line in seeded/CONFIRM.tsv
cd /verif
out=seeded/CONFIRM.tsv
: > $out
for d in seeded/C*/; do
  s=$(basename $d); id=${s:0:3}; var=${s:3}
  res=$(tools/seedcheck.sh $id $var /verif/$d 2>&1 | grep -v "^WARNING" )
  line=$(echo "$res" | grep "apply=" | head -1)
  verdict=$(echo "$res" | grep -o "CONFIRMED\|NOT-CONFIRMED\|patch-does-not-apply" | head -1)
  echo -e "$s\t$verdict\t$line" >> $out
  echo "$s $verdict"
done
