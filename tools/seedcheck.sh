#!/bin/bash
# tools/seedcheck.sh <ID> <variant> [<srcdir>]
# Confirms a seeded defect against the CURRENT /repo HEAD in a scratch worktree:
#   patch applies, builds, the existing test suite passes with it, the demo fails with
#   it and passes without it.  Prints one summary line.  Leaves nothing behind.
set -u
ID=$1; VAR=$2; SRC=${3:-/tmp/seed/$ID-out/$VAR}
export GOFLAGS=-mod=mod GOPROXY=off
WT=$(mktemp -d /tmp/seedwt.XXXXXX)
git -C /repo worktree add --detach "$WT" HEAD >/dev/null 2>&1 || { echo "$ID/$VAR worktree-failed"; exit 2; }
cleanup() { git -C /repo worktree remove --force "$WT" >/dev/null 2>&1; rm -rf "$WT"; }
trap cleanup EXIT
cd "$WT"
META=$SRC/meta.json; [ -f "$SRC/agent_meta.json" ] && META=$SRC/agent_meta.json
demo_file=$(python3 -c "import json;print(json.load(open('$META'))['demo_file'])")
demo_cmd=$(python3 -c "import json;print(json.load(open('$META'))['demo_cmd'])")
demo_src=$(ls "$SRC"/*.go 2>/dev/null | head -1)
if ! git apply --check "$SRC/patch.diff" 2>/dev/null; then echo "$ID/$VAR patch-does-not-apply"; exit 3; fi
# without the patch: demo passes
mkdir -p "$(dirname "$demo_file")"; cp "$demo_src" "$demo_file"
clean_out=$(cd "$WT" && eval "$demo_cmd" 2>&1); clean_rc=$?
rm -f "$demo_file"
git apply "$SRC/patch.diff"
build_out=$(go build ./... 2>&1); build_rc=$?
suite_out=$(go test -vet=off -count=1 ./... 2>&1); suite_rc=$?
suite_fail=$(echo "$suite_out" | grep -c "^FAIL\|^--- FAIL" )
# tolerate the load-sensitive rtptime TestTime
if [ $suite_rc -ne 0 ]; then
  other=$(echo "$suite_out" | grep "^--- FAIL" | grep -v "TestTime" | wc -l)
  if [ "$other" = "0" ] && echo "$suite_out" | grep -q "FAIL.*rtptime"; then suite_rc=0; suite_note="(rtptime TestTime flaked)"; fi
fi
cp "$demo_src" "$demo_file"
patched_out=$(cd "$WT" && eval "$demo_cmd" 2>&1); patched_rc=$?
echo "$ID/$VAR apply=ok build_rc=$build_rc suite_rc=$suite_rc ${suite_note:-} demo_clean_rc=$clean_rc demo_patched_rc=$patched_rc"
if [ $build_rc -eq 0 ] && [ $suite_rc -eq 0 ] && [ $clean_rc -eq 0 ] && [ $patched_rc -ne 0 ]; then echo "$ID/$VAR CONFIRMED"; exit 0; fi
echo "$ID/$VAR NOT-CONFIRMED"; [ $clean_rc -ne 0 ] && echo "$clean_out" | tail -5; [ $suite_rc -ne 0 ] && echo "$suite_out" | grep -v "^ok\|no test files" | tail -5
exit 1
