#!/bin/bash
# tools/seedrun.sh <seed dir> <property> [check args...] : runs a quick check against a scratch
# worktree of /repo HEAD with the seeded patch applied (VERIF_REPO development override), so that
# /repo itself is never touched.  Prints the check's summary lines.
set -u
S=$1; P=$2; shift 2
WT=$(mktemp -d /tmp/seedwt.XXXXXX)
git -C /repo worktree add --detach "$WT" HEAD >/dev/null 2>&1
trap 'git -C /repo worktree remove --force "$WT" >/dev/null 2>&1; rm -rf "$WT"' EXIT
git -C "$WT" apply "$S/patch.diff" || { echo "patch-does-not-apply"; exit 3; }
cd /verif && VERIF_REPO="$WT" ./check "$P" quick "$@" 2>&1 | grep "failed\|^VIOL\|^INCONCL\|^property=" | sed "s|$WT|/repo|g" | cut -c1-300
