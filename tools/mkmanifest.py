#!/usr/bin/env python3
"""Regenerates /verif/MANIFEST.json from the table below (kept by hand)."""
import json, os
V = os.path.dirname(os.path.dirname(os.path.abspath(__file__)))

CLAIMED = {
 "C01": dict(
  text="Bounded symbolic verification (SMT over go/ssa of the working tree). K-step bounded model check of packetmap.Map/Drop composed as in rtpDownTrack.Write from the zero Map: all 2^16 start seqnos, pids, reordering/duplicates/loss, every drop pattern; asserts the property's own formula out = in - #earlier-withheld plus uniqueness, order, duplicates and never-forward-withheld. Right level: the defects of this code live in rare seqno regions (wrap, window edges, start in the top eighth) that a solver covers completely within the bound.",
  note="Bounds: K arrivals (quick 3, thorough 5) from the zero Map; consecutive arrivals within the 8192 window. Outside: histories longer than K (ring of 128 entries never wraps), concurrent Write on one track, pion transport after track.Write. Trusted: go/ssa, gosmt executor, z3/cvc5.",
  technique="bounded model checking by SMT-based symbolic execution of go/ssa (z3/cvc5), counterexamples replayed natively",
  ref="4-C01"),
}

CLAIMED["C03"] = dict(
  text="Bounded symbolic verification (SMT over go/ssa). After every history (set-up prefix + K arbitrary arrivals through Drop-or-Map as in rtpDownTrack.Write) a NACK for ANY 16-bit outgoing number is answered by packetmap.Map.Reverse with exactly the source packet that was forwarded under that number (per the reference formula and per the recorded first copies), or refused; never a withheld packet; re-mapping the returned packet (what gotNACK->Write does) yields the NACKed number again. Right level: inversion bugs live at interval boundaries and wrap points which the solver covers for all values.",
  note="Bounds: prefix in a fixed family + K arrivals (quick 2, thorough 3), 8192 window. Outside: the cache lookup and RewritePacket on the resend path are covered by C05/C02 separately, not composed here; gotNACK's closure itself (pion/RTCP plumbing) is not encoded; ring wrap of 128 intervals.",
  technique="bounded model checking by SMT-based symbolic execution of go/ssa (z3/cvc5), counterexamples replayed natively",
  ref="4-C03")
CLAIMED["C05"] = dict(
  text="Bounded symbolic verification (SMT over go/ssa). Every sequence of K Store/Resize/ResizeCond operations on packetcache.New(c0) followed by lookups: the most recent packets (up to the capacity left by the resizes) are retrievable; Get/GetAt for ANY seqno/index return nothing or byte-exactly one stored packet of that seqno (length and bytes), write nothing beyond it; Store leaves the caller's buffer alone; plus a lockset obligation: every Cache field / entries-array access inside the methods happens with cache.mu held, which makes each method atomic and is what the concurrent-readers clause rests on.",
  note="Bounds: K ops (quick 3, thorough 4), capacities 1..Cmax (3/4), packet lengths 1..Lmax (2) with symbolic bytes, seqnos/timestamps symbolic. Outside: capacities above Cmax, lengths above Lmax (length enters only through copy and the 15-bit length field), real preemption (the concurrency clause is decided through mutex discipline, assuming sync.Mutex works).",
  technique="bounded model checking by SMT-based symbolic execution of go/ssa + lockset obligation on symbolic paths",
  ref="4-C05")

CLAIMED["C06"] = dict(
  text="Bounded symbolic verification (SMT over go/ssa) with INDUCTIVE steps from arbitrary states: (1) bitmap.set / bitmap.get / Cache.Store each preserve 'bit k <=> packet first+k received, nothing ahead of the window received, window glued to the newest packet' from an arbitrary bitmap word and window position (stated for one Skolem seqno, which is the whole invariant because the code only shifts); get reports only not-received seqnos inside [first,next), every hole leaving the window, each at most once; (2) the reception counters: one arbitrary Store/Expect/GetStats from an arbitrary counter state keeps received<=expected (interval and total) and ESeqno monotone unless the stream jumps back by >256; (3) ToBitmap names exactly its list; (4) K-step BMC of Store + the readLoop NACK rule on a fresh cache (composition), one hole in a steady stream requested exactly once. Unbounded histories are covered by (1),(2); the solver decides all 2^16 window positions and 2^32 bitmap words.",
  note="Bounds: inductive steps are unbounded in history but assume the stated invariants (glue: first<=last+1<=first+32 and no bit beyond last), counters < 2^30, cycle < 65535, forward jumps < 0x4000; BMC K=3 (quick) / 4 (thorough); ToBitmap lists <= 4/6. The NACK decision of readLoop (rtpreader.go) is mirrored in the harness, not executed from rtpconn; sendUpRTCP's loss-fraction arithmetic and nackWriter are not encoded (rtpconn needs pion stubs). Trusted: go/ssa, gosmt, z3/cvc5.",
  technique="inductive-step and bounded model checking by SMT-based symbolic execution of go/ssa (z3/cvc5), counterexamples replayed natively",
  ref="4-C06")

CLAIMED["C02"] = dict(
  text="Bounded symbolic verification (SMT over go/ssa). codecs.RewritePacket on every packet of the enumerated header/descriptor shapes with all non-structural bits symbolic: length, first octet, payload type, timestamp, SSRC and every byte outside the picture-id field unchanged (Skolem byte index), seqno as requested, marker only set on request, and - with pion's own RTP and VP8 parsers executed symbolically as the oracle - identical descriptor fields and payload with PictureID' = PictureID+delta mod 2^7 / 2^15; refused rewrites touched only octets 1-3. Rare shapes (7-bit ids crossing 127, CSRCs, header extensions) are exactly where sampling is blind.",
  note="Bounds: CSRC count 0..1 (thorough 0..3), padding 0/1, header extension absent/0/1 words, 17 VP8 descriptor shapes, 0..2 (thorough 0..6) payload bytes after the descriptor, 4 (7) codec strings. Outside: longer payloads (the rewriter never looks past the descriptor), the frame-level consecutiveness of picture ids through packetmap + rtpDownTrack.Write (see DESIGN 4-C02: needs the rtpconn harness), session-level rewriting done by pion after track.Write. Trusted: go/ssa, gosmt, pion parsers as oracle, z3/cvc5.",
  technique="bounded symbolic execution of go/ssa with SMT (z3/cvc5), differential against pion's parsers, counterexamples replayed natively",
  ref="4-C02")
CLAIMED["C12"] = dict(
  text="Bounded symbolic verification (SMT over go/ssa): every implicit Go panic (index/slice bounds, nil dereference, failed type assertion, division by zero) in codecs.PacketFlags, RewritePacket, Keyframe, KeyframeDimensions and in the pion RTP/VP8/VP9 Unmarshal code they call is an assertion decided by the solver for EVERY byte string up to the bound under every codec name, and for the readLoop path (pion Unmarshal -> Keyframe -> PacketFlags).",
  note="Bounds: buffers of 0..20/24/12/18 bytes (thorough 40/48/24/32) for flags/rewrite/keyframe/readpath, 7 codec strings; plus: the C11 signalling matrix with the panic checks on (57 message variants x 5 membership states x roles), draining of the action queue through handleAction in every membership state, and the HTTP string kernels (splitPath, parseGroupName, scanETag, etagMatch) on all strings up to 6 (9) bytes. Outside: longer packets (AV1/H.264 aggregation loops grow with length), the API/WHIP/static HTTP handlers themselves, sdp/sdpfrag/JSON/websocket decoding in libraries. Trusted: go/ssa, gosmt, z3/cvc5.",
  technique="bounded symbolic execution of go/ssa with SMT-decided panic checks, counterexamples replayed natively with recover",
  ref="4-C12")

CLAIMED["C09"] = dict(
  text="Bounded symbolic verification (SMT over go/ssa). Stateful.match and the signed-token audience test matchGroup are shown EQUIVALENT to a direct specification of scope (equal, or covering subgroups and an ancestor by whole path components) for all byte strings up to the bound - the region where 'a' vs 'ab', trailing slashes and empty components live; Stateful.Check with a symbolic clock: success only with an expiry in the future and a not-before in the past, never for another group, and it returns exactly the token's permissions and username.",
  note="Bounds: token group 0..3 (thorough 5) bytes, target 1..5 (8) bytes, all byte values; clock any instant 1970-2200, offsets within +-1 year and >2 s away from the clock (so a counterexample replays under the real clock). Outside: signature verification and key/alg selection inside golang-jwt (library, stub would only restate its contract), url.Parse, JSON; Description.GetPermission's token branch (token username overrides, client-chosen name never shadows a configured user, invalid names refused, permissions exactly the token's) IS decided, around a model of token.Parse. Trusted: go/ssa, gosmt, z3/cvc5, the time.Now contract stub.",
  technique="bounded symbolic execution of go/ssa with SMT (reference-equivalence on all byte strings up to the bound; symbolic clock)",
  ref="4-C09")
CLAIMED["C18"] = dict(
  text="Bounded symbolic verification (SMT over go/ssa) of the conditional-request kernel: etagMatch is SOUND for every header value up to the bound (a match is reported only if the current tag occurs literally in the header, or '*' and the object exists; a non-existent object never matches), behaves per RFC 7232 on well-formed lists/weak tags/'*', and checkPreconditions implements the status table (412 / 304 / proceed) for every method and header pair. This is the decision on which 'a write with If-Match succeeds only if unchanged' rests.",
  note="Bounds: headers 0..6 (thorough 9) bytes over all byte values, tags with 1-2 body bytes; precondition table with header values 0..3 (5) bytes; plus, over a ghost single-file store behind readDescription/rewriteDescriptionFile whose versions differ by ONE nanosecond of mtime: of two writers holding the same tag the first succeeds and any of 6 operations by the second is refused without writing (real UpdateDescription/UpdateUser/DeleteUser incl. makeETag), the empty tag creates but never overwrites. NOT decided: truly concurrent writers (their exclusion rests on groups.mu; sequential composition is what is checked) and the crash atomicity of temp-file+fsync+rename - no file-system fault model and no threads in this engine (DESIGN 4-C18 d). Trusted: go/ssa, gosmt, z3/cvc5, http.Header.Get modelled as a map lookup.",
  technique="bounded symbolic execution of go/ssa with SMT (soundness and completeness obligations over all header byte strings up to the bound)",
  ref="4-C18")
CLAIMED["C19"] = dict(
  text="Bounded symbolic verification (SMT over go/ssa). validGroupName/validUsername are shown EQUIVALENT to the direct specification (non-empty, no backslash, no empty/'.'/'..' component) on every byte string up to the bound, with the real path.Clean executed symbolically; every file name getDescriptionFile probes for ANY input (valid or not) stays under Directory with no '..' component; parseGroupName returns only names the group layer accepts. All 256 byte values incl. NUL, '%', UTF-8 lead/continuation bytes.",
  note="Bounds: strings of 0..6 / 0..5 / 0..5 bytes (thorough 9 / 8 / 8). Outside: os.Root confinement of static files and recordings (kernel), diskwriter.sanitise (strings.Replacer machinery), the delete-form filename check in webserver (needs the http.Request form machinery), longer names (path.Clean is a byte loop: cost 3^L paths). Trusted: go/ssa, gosmt, z3/cvc5.",
  technique="bounded symbolic execution of go/ssa with SMT (reference-equivalence on all byte strings up to the bound)",
  ref="4-C19")

CLAIMED["C04"] = dict(
  text="Bounded symbolic verification (SMT over go/ssa) of the REAL rtpDownTrack.Write (PacketFlags via pion, layer bookkeeping, adjustLayer, packetmap, RewritePacket) as an INDUCTIVE step from an arbitrary layer word satisfying the invariant (selected <= wanted/seen, fields <= 7): the invariant is preserved, the temporal layer falls only at a frame start and rises only at a keyframe or an up-switch point not above the wanted layer (or follows a new top layer), an in-order packet above the selected layer is withheld and all others forwarded; plus losslessness of the 32-bit packing. Bitrate estimate and clock are arbitrary, so every adjustLayer outcome is covered.",
  note="Bounds: one VP8 packet (single-packet frame shape with 15-bit picture id and TID octet) or one VP9 packet (non-flexible mode with picture id and layer octet), tid/sid 0..3, all seqnos/pids/flags/layer words. Also: replaceTracks stores the video-low limit on an existing connection from an arbitrary layer state; requestedTracks' limitSid rule is in C07. Also: the same inductive step for VP9 packets (spatial layer changes only at a keyframe start or follows a new top layer; non-reference lower-layer packets withheld; a pending switch requests a keyframe), and updateRate's clamp to [9600, 2^30] for every previous value, loss, clock and estimate. NOT encoded: interleavings with RTCP feedback (the arbitrary pre-state covers any prior feedback, not a store racing between Write's load and store). Function-level stubs: TrackLocalStaticRTP.Write (capturing model), Estimator.Estimate/Accumulate, rtptime.Jiffies - natively intercepted for replay by overlaying patched copies of their source files (hook variables), nothing in /repo is touched. Trusted: go/ssa, gosmt, z3/cvc5.",
  technique="inductive-step symbolic execution of go/ssa with SMT (z3/cvc5); function stubs replayed natively through source-overlay hooks",
  ref="4-C04")

CLAIMED["C08"] = dict(
  text="Bounded symbolic verification (SMT over go/ssa). The login decision of Description.GetPermission (password branch, real getPasswordPermission / Password.Match / ConstantTimeCompare / subtle.ConstantTimeCompare / validUsername) is checked against the property's own table for a users map with a symbolic named entry and an optional wildcard user, symbolic credentials over all byte values: accepted iff the entry exists and matches or (no entry) the wildcard matches; entry shadows wildcard; empty, key-less and unknown password kinds never match; refusals grant nothing; rights are the matched entry's. Role expansion for all six roles x both group flags as sets; ConstantTimeCompare <=> equality; and the aliasing obligation through the REAL changePermissionsAction handler of rtpconn (a later login still gets the configured rights).",
  note="Bounds: names 1..1 (thorough 2) bytes, passwords/keys 0..1 (2) bytes, 5 non-hashed password kinds; plain compare strings 0..3 (5) bytes. NOT encoded: pbkdf2/bcrypt themselves and galenectl's makePassword round trip (library hashes: a stub would restate their contract), JSON decoding of descriptions. Trusted: go/ssa, gosmt, z3/cvc5.",
  technique="bounded symbolic execution of go/ssa with SMT (decision table over symbolic strings; cross-package aliasing obligation), counterexamples replayed natively",
  ref="4-C08")
CLAIMED["C10"] = dict(
  text="Bounded symbolic verification (SMT over go/ssa) as INDUCTIVE steps of the real group.AddClient and DelClient (with autoLockKick, getClientsUnlocked) from an arbitrary group state: every combination of locked / autolock / autokick / max-clients / not-before / expires, 0..2 (thorough 3) existing members with arbitrary rights, three credential outcomes, fresh / duplicate / empty id. Asserted: the admission rules with operators exempt, duplicate ids refused, a rejected client is not a member and nobody is told, autolock re-engaged on return of DelClient when no operator remains; LOCKSET obligations: membership / lock / description are only touched with g.mu held and AddClient's decision and insertion lie in ONE critical section (which is what 'however joins and leaves interleave' rests on, assuming sync.Mutex works).",
  note="Bounds as stated; group.Add and Description.GetPermission are function-level stubs (models; natively intercepted by source-overlay hooks for replay); time.Now symbolic with limits 1 h away; the autokick kick loop (a go statement) is not executed. The schedules quantifier is decided through mutex discipline on symbolic paths, not by running goroutines. Trusted: go/ssa, gosmt (incl. its mutex model), z3/cvc5.",
  technique="inductive-step symbolic execution of go/ssa with SMT + lockset / single-critical-section obligations on symbolic paths",
  ref="4-C10")
CLAIMED["C14"] = dict(
  text="Bounded symbolic verification (SMT over go/ssa), inductive steps of the real group.AddClient / DelClient from an arbitrary group state with recording fake clients: after a successful join the newcomer is told 'join', about itself and about every member exactly once with true usernames and permissions, every member is told about the newcomer exactly once and nothing else; after a leave every remaining member is told 'delete' exactly once; a refused join tells nobody anything; deleting a non-member changes nothing. Exactly-once per step + arbitrary pre-state gives convergence of each member's list for join/leave histories of any length.",
  note="Bounds: 0..2 (thorough 3) members. Also: the group-name filter of rtpconn's handleAction(pushClientAction) (no event about one group reaches a member of another). NOT encoded: the permission/data change broadcasts (permissionsChangedAction, setdata) and the order in which queued actions are drained (the schedules part of the property) - these need the rtpconn client loop with its websocket writer. Trusted: go/ssa, gosmt, z3/cvc5, the Add/GetPermission models.",
  technique="inductive-step symbolic execution of go/ssa with SMT, ghost event logs in fake clients",
  ref="4-C14")

CLAIMED["C11"] = dict(
  text="Symbolic execution (SMT over go/ssa) of the REAL rtpconn.handleClientMessage with the membership state produced by REAL joins/leaves (handleClientMessage -> group.AddClient -> Description.GetPermission with plaintext passwords): one message out of 57 variants (every type and kind; present, absent and unknown destinations and ids; well- and ill-typed values) from a client in each of 5 membership states (never joined, member, join refused by a locked group, left, redirected) holding the rights of each role x recording/unrestricted-token flags. Every privileged effect is an effect stub or an observable state change and is asserted to have happened only for a current member holding the required permission: publish (present), chat/caption forwarding and history, lock, clearchat, op/unop/present/unpresent/shutup/kick, identify, subgroups, setdata (op), record, token creation (token, own group), token edit/list (op and token, own group only); a non-member holds no permission; leave clears the rights.",
  note="The quantified domain here is a finite vocabulary which the executor covers exhaustively (8631 work items); the solver decides the string comparisons and branch feasibility on each. Also WHIP (webserver/whip.go, real handlers around recording models of the pion-touching WhipClient operations): ingest reaches NewConnection only for POST with credentials whose permissions contain 'present' (else 401/403 and no client left in the group); DELETE/PATCH on a session take effect only with the session's bearer token (symbolic 1-byte tokens, five Authorization shapes). NOT encoded: enforcement 'from the moment the client has been notified' across goroutines, the closing of streams on unpresent (delUpConn needs pion). Function-level models: broadcast, gotOffer, diskwriter.New, token.Get/Update/List, group.descriptionUnchanged, ice.ICEConfiguration, group.GetConfiguration (natively intercepted by source-overlay hooks); concrete clock. Trusted: go/ssa, gosmt, z3/cvc5.",
  technique="symbolic execution of go/ssa with SMT over an exhaustively enumerated finite message/state vocabulary, effect stubs with precondition assertions, counterexamples replayed natively",
  ref="4-C11")
CLAIMED["C15"] = dict(
  text="Symbolic execution (SMT over go/ssa) of the REAL handleClientMessage chat/usermessage path for a member (real join) with the rights of any role and SYMBOLIC source, username and destination bytes: a claimed id or name other than the sender's own is a ProtocolError (which closes the connection) with no effect at all; a forwarded message carries the true id / name or nothing, is privileged exactly when the sender holds op, keeps dest/kind/noecho/value; broadcast goes to every member minus the sender on noecho, a directed message to exactly the named member; only broadcast chat enters the history (real AddToChatHistory).",
  note="Bounds: source 0..1 bytes, username absent or 2 bytes, destination 0..1 bytes over all byte values; 2 members; 5 roles x flags. Also decided (group package): AddToChatHistory as an inductive step from every prior length 0..50 (bound, order, oldest dropped), the age bound of GetChatHistory for every mixture of obsolete and recent entries incl. all-obsolete, and ClearChatHistory's selection. NOT encoded: the replay loop of joinedAction. broadcast is a recording model (real one marshals JSON). Trusted: go/ssa, gosmt, z3/cvc5.",
  technique="symbolic execution of go/ssa with SMT (symbolic message fields), counterexamples replayed natively",
  ref="4-C15")

CLAIMED["C20"] = dict(
  text="Bounded symbolic verification (SMT over go/ssa) of the two kernels of the recorder that are within reach, stated plainly as a small part of this property: (1) diskTrack.Write's gap logic and fetch: after a forward gap exactly the missing seqnos are looked up in the publisher's cache, ascending, once each; every packet found reaches the recorder before the arriving one with EXACTLY the cached length and bytes (pion's Unmarshal executed symbolically); the caller's buffer is copied; late/duplicate packets trigger no look-up; (2) writeBuffered's timestamp handling: samples at/after the origin in mod-2^32 order (all origins, i.e. across the 32-bit wrap) are written at (ts-origin)/(rate/1000) without closing the file, in non-decreasing time; a slightly early sample is dropped.",
  note="Bounds: all seqnos, gaps 1..4 (thorough 8), payloads 1..3 bytes; all origins, offsets < 2^30. NOT decided (the bulk of the property): frame assembly, duplicates and ordering inside jech/samplebuilder, setOrigin/setTimeOffset/adjustOrigin (rtptime uses 128-bit multiply/divide by 10^9 that no solver here decides), container well-formedness (ebml-go), flush on close, file handling. writeRTP / PopWithTimestamp / diskConn.close are models. Trusted: go/ssa, gosmt, z3/cvc5.",
  technique="bounded symbolic execution of go/ssa with SMT (z3/cvc5) of the recovery and timestamp kernels only",
  ref="4-C20")

CLAIMED["C17"] = dict(
  text="Symbolic execution (SMT over go/ssa) of the REAL webserver.apiHandler and every handler below it (apiGroupHandler, usersHandler, specialUserHandler, userHandler, passwordHandler, keysHandler, tokensHandler, checkAdmin, checkAdminOrExplicitPassword, apiCORS, splitPath, checkPreconditions, httpError...) over an exhaustively enumerated request vocabulary (7 methods x 29 endpoint shapes x 3 credential outcomes x 3 token states), with every accessor and mutator of group/user/key/token/statistics data as an EFFECT STUB: nothing is read or modified unless an authorisation for the SAME group string succeeded (administrator; or the user's own password, for setting that password only); refusals are 401/404 without effect; OPTIONS has no effect; no panic. Separately: the real isAdminOrExplicitPassword with real GetPermission/Password.Match against symbolic passwords (true iff administrator, or the named user's own password; empty-username and wildcard entries are ordinary users); and, over a ghost single-file store, that the sanitised views contain no users/keys/password material and that UpdateDescription/UpdateUser/SetUserPassword never remove or alter stored secrets they do not address and refuse unsanitised input.",
  note="The request vocabulary is finite and covered exhaustively; the solver decides path/string comparisons. NOT encoded: JSON encoding of the response ('no response contains a secret' is shown at the level of the value handed to the encoder), CORS origin logic, globalAdminMatch / checkGlobalAdminToken (global administrator; its crypto is C08/C09's), body decoding. 25 function-level models, natively intercepted by source-overlay hooks. Trusted: go/ssa, gosmt (incl. its models of http.Error/Header), z3/cvc5.",
  technique="symbolic execution of go/ssa with SMT over an exhaustively enumerated finite request vocabulary, effect stubs with precondition assertions; ghost single-file store for the sanitise/carry-over obligations",
  ref="4-C17")

CLAIMED["C13"] = dict(
  text="Symbolic execution (SMT over go/ssa) with a ghost 'held' bit per mutex object: LOCKSET obligations (every read/write of Group.{description,locked,clients,history,timestamp,data}, WhipClient.{permissions,connection,etag}, unbounded.Channel.queue and of the objects reached through them happens with the guarding mutex held, on every feasible path of 18 group entry points, 5 WHIP/web-client operations and the queue operations) and a LOCK-ORDER obligation (the graph of 'mutex B acquired while holding A', abstracted to owner type and field, collected over all those paths is acyclic). Plus the sequential contract of the client action queue (every item exactly once, in order, signal on empty->non-empty). This decides absence of data races and deadlocks for the listed state at the level of mutex discipline, which is where such defects come from; it assumes sync.Mutex works.",
  note="No goroutines are run and no interleavings are enumerated: the bounded interleaving exploration of unbounded.Channel announced in DESIGN 2.7 (threads) was not built, so 'lost wake-ups' are excluded only through the lockset argument (the emptiness test that decides the wake-up is made under the lock). State confined to its owner goroutine by design (webClient.permissions/data, WhipClient.username/group) is NOT checked - see DESIGN section 6, N7. diskwriter, stats and token.state entry points are not included. Go statements are not executed. Trusted: go/ssa, gosmt's mutex model, z3/cvc5.",
  technique="lockset and lock-order obligations on SMT-based symbolic execution paths of go/ssa",
  ref="4-C13")

CLAIMED["C16"] = dict(
  text="Symbolic execution (SMT over go/ssa) of the REAL token/stateful.go (Update, Get, Delete, Expire, List, load, add, rewrite, list, etag, reset) over a GHOST FILE SYSTEM (engine model of the os / encoding/json calls it makes: a file is the sequence of encoded values plus a (size, mtime) version whose mtime moves by one nanosecond per modification; rename replaces atomically): after every sequence of K operations out of create / edit-with-current-tag / delete-with-current-tag / expiry sweep over three tokens the running server and a freshly started server reading the same file honour exactly the same tokens; deleted and swept tokens are gone for both; of two editors holding the same tag the second is refused and changes nothing; every change yields a new tag; the empty tag never overwrites; an external removal of the file revokes everything. Counterexamples are replayed natively against the real file system in a temporary directory.",
  note="Bounds: K=3 (thorough 4) over an 8-operation vocabulary, 4x3 editor pairs. NOT decided (stated plainly): failure of any file-system call (the roll-back paths) and a crash at each step of rewrite (the 'atomic replacement' clause) - fault/crash injection was deliberately left out of the ghost FS because such counterexamples cannot be replayed natively; truly concurrent editors (exclusion rests on the mutex; sequential composition is what is checked); JSON syntax (a file is the sequence of values handed to the encoder); mtime granularity of real file systems. Trusted: go/ssa, gosmt and its ghost FS, z3/cvc5.",
  technique="bounded symbolic execution of go/ssa with SMT over a ghost file-system model; native replay on the real file system",
  ref="4-C16")

CLAIMED["C07"] = dict(
  text="Symbolic execution (SMT over go/ssa) of the decision kernels of stream offering, over an exhaustively enumerated finite vocabulary: the REAL requestedTracks against the property's own rule for every request list of 0..3 words over {audio, video, video-low, other} and every list of 0..3 audio/video tracks; the REAL handleAction(pushConnAction) -> pushDownConn for every combination of stream label, default request entry, per-label request entry, track list and replacement: the stream is offered iff its label's entry (or, only if the label has no entry at all, the default) requests something that exists, with exactly those tracks and the publisher's stream id; otherwise exactly one close; a replaced stream is removed and closed; nothing for another group or a client that has not joined.",
  note="This is the smallest part of C07 and is labelled as such: NOT encoded are delUpConn's fan-out of closes when a publisher closes/leaves/is kicked/loses 'present' (needs rtpUpConnection with pion), the 200 ms request coalescing goroutine, real negotiation (ICE, SDP), delivery over websockets and every interleaving of several clients - the property's schedules quantifier is not addressed at all. addDownConn / replaceTracks / negotiate / delDownConn are recording models (natively intercepted by source-overlay hooks). Bounds: push-decision W=T=2 in quick, 3 in thorough. Trusted: go/ssa, gosmt, z3/cvc5.",
  technique="symbolic execution of go/ssa with SMT over an exhaustively enumerated finite vocabulary of requests and track lists (decision kernels only)",
  ref="4-C07")

NOT_APPLICABLE = {
}

def main():
    props = [json.loads(l) for l in open(os.path.join(V, "properties.jsonl"))]
    checks = []
    na = []
    for p in props:
        i = p["id"]
        if i in CLAIMED:
            c = CLAIMED[i]
            checks.append({
                "property_id": i,
                "quick_cmd": "./check %s quick" % i,
                "thorough_cmd": "./check %s thorough" % i,
                "evidence_file": "/verif/evidence/%s.json" % i,
                "replay_cmd_template": "./check replay {path}",
                "engine": "gosmt",
                "level_claimed": {"category": "other", "text": c["text"], "design_ref": c["ref"]},
                "level_note": c["note"],
                "technique": c["technique"],
            })
        else:
            na.append({"property_id": i, "reason": NOT_APPLICABLE.get(i, "check not built yet in this session (solver-based harness pending); not claimed")})
    m = {
        "version": 1,
        "setup_cmd": "cd /verif/engine && GOFLAGS=-mod=mod GOPROXY=off go build -o gosmt . && cd /verif && ./check selftest quick",
        "hooks": {
            "guard": "verif",
            "enable": "no hooks in /repo: harnesses (/verif/harness/<pkg>/zz_verif_*.go, build tag `verif || verifreplay`) and the intrinsics package zzverif are injected by go/packages Overlay (symbolic run) and `go test -overlay` (native replay)",
            "baseline_off_cmd": "cd /repo && GOFLAGS=-mod=mod GOPROXY=off go test -json -vet=off -count=1 -timeout 25m ./...",
            "source_commits": [],
            "add_only": True,
        },
        "engines": [{"name": "gosmt", "path": "/verif/engine", "serves_properties": sorted(CLAIMED.keys()),
                     "kind_free_text": "forking symbolic executor over go/ssa (x/tools v0.29.0) of /repo's working tree; bit-vector SMT-LIB2 to z3 4.8.12 (incremental) with cvc5/z3-new portfolio and cross-check; native replay through go test -overlay"}],
        "checks": checks,
        "not_applicable": na,
        "notes": "Exit codes: 0 held / known findings only; 1 + VIOLATION line = reproduced unlisted violation; 3 = inconclusive (solver unknown, unwinding bound, unmodelled call, replay divergence, vacuous harness). Known findings: /verif/known_findings.txt.",
    }
    json.dump(m, open(os.path.join(V, "MANIFEST.json"), "w"), indent=1)
    print("claimed:", len(checks), "not_applicable:", len(na))

main()
