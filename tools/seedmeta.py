#!/usr/bin/env python3
"""Writes seeded/<id>/meta.json for every stored seed from the author's description
(agent_meta.json), the re-confirmation (seeded/CONFIRM.tsv, tools/seedconfirm.sh) and the
detection matrix (seeded/MATRIX.tsv, tools/seedmatrix.sh)."""
import json, os, glob
V = os.path.dirname(os.path.dirname(os.path.abspath(__file__)))
conf = {}
for l in open(V + '/seeded/CONFIRM.tsv'):
    f = l.rstrip('\n').split('\t')
    if len(f) >= 3: conf[f[0]] = (f[1], f[2])
mat = {}
for l in open(V + '/seeded/MATRIX.tsv'):
    f = l.rstrip('\n').split('\t')
    if len(f) >= 6: mat[f[0]] = dict(violations=int(f[2].split('=')[1]), inconclusive=int(f[3].split('=')[1]), obligations=[x for x in f[4].split(',') if x], wall=f[5])
for d in sorted(glob.glob(V + '/seeded/C*/')):
    s = os.path.basename(d.rstrip('/'))
    a = json.load(open(d + 'agent_meta.json'))
    c = conf.get(s, ('not re-run', ''))
    m = mat.get(s)
    meta = {
        'seed': s,
        'property': s[:3],
        'round': 1 if s[3] in 'ab' else 2,
        'what_it_changes': a.get('summary') or a.get('change') or a.get('description') or '',
        'what_breaks': a.get('breaks') or a.get('clause') or a.get('effect') or '',
        'what_it_needs': a.get('needs') or '',
        'demo_file': a.get('demo_file'),
        'demo_cmd': a.get('demo_cmd'),
        'author': 'fresh sub-agent given only the property text and its own scratch worktree',
        'author_ran': a.get('ran') or a.get('verification') or a.get('checks') or '',
        'confirmed_here': {
            'how': 'tools/seedcheck.sh in a scratch worktree of /repo HEAD: git apply; go build ./...; go test -vet=off -count=1 ./... (existing suite, rtptime TestTime flake tolerated); demonstration with the patch (must fail) and without it (must pass)',
            'verdict': c[0], 'result': c[1]},
        'detection': None if m is None else {
            'how': 'tools/seedrun.sh: ./check %s quick against a scratch worktree with the patch applied' % s[:3],
            'detected': m['violations'] > 0, 'violations': m['violations'], 'inconclusive': m['inconclusive'],
            'failing_obligations': m['obligations'], 'wall': m['wall']},
    }
    json.dump(meta, open(d + 'meta.json', 'w'), indent=1)
print('wrote', len(glob.glob(V + '/seeded/C*/meta.json')), 'meta.json files')
