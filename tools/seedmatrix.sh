#!/bin/bash
# tools/seedmatrix.sh : for every seeded defect, runs the quick check of its property against a
# scratch worktree of /repo HEAD with the patch applied (never /repo itself), and records
# whether a VIOLATION was reported.  Output: seeded/MATRIX.tsv
cd /verif
out=seeded/MATRIX.tsv
: > $out
for d in seeded/C*/; do
  s=$(basename $d); prop=${s:0:3}
  res=$(tools/seedrun.sh /verif/$d $prop)
  viol=$(echo "$res" | grep -c "^VIOLATION")
  inc=$(echo "$res" | grep -c "^INCONCLUSIVE")
  obs=$(echo "$res" | grep "failed:" | sed 's/.*obligation=\([^ ]*\) .*/\1/; s/.*failed: lock-order.*/lock-order/' | sort -u | tr '\n' ',' )
  wall=$(echo "$res" | grep "^property=" | sed 's/.*wall=//')
  echo -e "$s\t$prop\tviolations=$viol\tinconclusive=$inc\t$obs\t$wall" >> $out
  echo "$s violations=$viol inconclusive=$inc $obs $wall"
done
