#!/bin/bash
# tools/seedmatrix.sh : applies every seeded defect to /repo in turn, runs the quick check of its
# property, records whether a VIOLATION was reported, and undoes the patch straight afterwards.
cd /verif
out=seeded/MATRIX.tsv
: > $out
for d in seeded/C*/; do
  s=$(basename $d); prop=${s:0:3}
  git -C /repo apply /verif/$d/patch.diff || { echo -e "$s\t$prop\tpatch-does-not-apply" >> $out; continue; }
  res=$(./check $prop quick 2>&1)
  git -C /repo checkout -- .
  viol=$(echo "$res" | grep -c "^VIOLATION")
  inc=$(echo "$res" | grep -c "^INCONCLUSIVE")
  obs=$(echo "$res" | grep "failed:" | sed 's/.*obligation=\([^ ]*\) .*/\1/; s/.*failed: lock-order.*/lock-order/' | sort -u | tr '\n' ',' )
  wall=$(echo "$res" | grep "^property=" | sed 's/.*wall=//')
  echo -e "$s\t$prop\tviolations=$viol\tinconclusive=$inc\t$obs\t$wall" >> $out
  echo "$s violations=$viol inconclusive=$inc $obs $wall"
done
