package main

// If-conversion of pure diamonds and summarisation of small pure callees:
// both enumerate the (few) paths of a side-effect-free region on a scratch
// frame and merge the results into ite terms, so that `a && b`, `compare()`,
// `entry.length()` and invariant helpers written in ordinary Go do not fork
// the executor.

import (
	"go/token"
	"go/types"

	"golang.org/x/tools/go/ssa"
)

type impureSignal struct{ why string }

type mergeable struct {
	static bool // statically admissible
}

type pathEnd struct {
	cond *Term
	env  map[ssa.Value]Value
	last *ssa.BasicBlock
	ret  Value
}

// ipdoms computes immediate post-dominators (block index -> index or -1).
func (e *Exec) ipdoms(fn *ssa.Function) []int {
	if r, ok := e.ipdomCache[fn]; ok {
		return r
	}
	n := len(fn.Blocks)
	words := (n + 63) / 64
	full := make([]uint64, words)
	for i := 0; i < n; i++ {
		full[i/64] |= 1 << uint(i%64)
	}
	pd := make([][]uint64, n)
	for i, b := range fn.Blocks {
		pd[i] = make([]uint64, words)
		if len(b.Succs) == 0 {
			pd[i][i/64] |= 1 << uint(i%64)
		} else {
			copy(pd[i], full)
		}
	}
	changed := true
	for changed {
		changed = false
		for i := n - 1; i >= 0; i-- {
			b := fn.Blocks[i]
			if len(b.Succs) == 0 {
				continue
			}
			nw := make([]uint64, words)
			copy(nw, full)
			for _, s := range b.Succs {
				for w := range nw {
					nw[w] &= pd[s.Index][w]
				}
			}
			nw[i/64] |= 1 << uint(i%64)
			for w := range nw {
				if nw[w] != pd[i][w] {
					changed = true
				}
			}
			pd[i] = nw
		}
	}
	count := func(s []uint64) int {
		c := 0
		for _, w := range s {
			for ; w != 0; w &= w - 1 {
				c++
			}
		}
		return c
	}
	res := make([]int, n)
	for i := 0; i < n; i++ {
		res[i] = -1
		best := -1
		for j := 0; j < n; j++ {
			if j != i && pd[i][j/64]&(1<<uint(j%64)) != 0 {
				if c := count(pd[j]); c > best {
					best = c
					res[i] = j
				}
			}
		}
	}
	e.ipdomCache[fn] = res
	return res
}

var pureIntrinsic = map[string]bool{
	vpkg + "And": true, vpkg + "And3": true, vpkg + "Or": true, vpkg + "Or3": true, vpkg + "Implies": true, vpkg + "Iff": true,
	vpkg + "IteU8": true, vpkg + "IteU16": true, vpkg + "IteU32": true, vpkg + "IteU64": true, vpkg + "IteInt": true,
	"(*" + vpkg[:len(vpkg)-1] + ".Ghost).Get": true,
	"builtin:len": true, "builtin:cap": true, "builtin:min": true, "builtin:max": true,
	"math/bits.TrailingZeros8": true, "math/bits.TrailingZeros16": true, "math/bits.TrailingZeros32": true, "math/bits.TrailingZeros64": true,
	"math/bits.LeadingZeros8": true, "math/bits.LeadingZeros16": true, "math/bits.LeadingZeros32": true, "math/bits.LeadingZeros64": true,
	"math/bits.Len8": true, "math/bits.Len16": true, "math/bits.Len32": true, "math/bits.Len64": true,
	"math/bits.OnesCount8": true, "math/bits.OnesCount16": true, "math/bits.OnesCount32": true, "math/bits.OnesCount64": true,
	"internal/bytealg.IndexByteString": true, "internal/bytealg.IndexByte": true,
}

// staticPure: can this instruction ever be part of a pure region?
func staticPure(in ssa.Instruction) bool {
	switch x := in.(type) {
	case *ssa.BinOp, *ssa.Phi, *ssa.ChangeType, *ssa.Field, *ssa.Extract, *ssa.FieldAddr,
		*ssa.IndexAddr, *ssa.Index, *ssa.If, *ssa.Jump, *ssa.DebugRef, *ssa.Convert, *ssa.Return,
		*ssa.MakeInterface, *ssa.ChangeInterface, *ssa.Slice:
		return true
	case *ssa.UnOp:
		return x.Op != token.ARROW
	case *ssa.Lookup:
		_, isMap := x.X.Type().Underlying().(*types.Map)
		return !isMap
	case *ssa.Call:
		if x.Call.IsInvoke() {
			return false
		}
		switch c := x.Call.Value.(type) {
		case *ssa.Builtin:
			return pureIntrinsic["builtin:"+c.Name()]
		case *ssa.Function:
			return true // decided dynamically (intrinsic whitelist or recursive summary)
		}
		return false
	}
	return false
}

func (e *Exec) fnStaticPure(fn *ssa.Function) bool {
	if m, ok := e.mergeInfo[fn]; ok {
		return m.static
	}
	ok := len(fn.Blocks) > 0 && len(fn.Blocks) <= 40 && fn.Recover == nil
	if ok {
	outer:
		for _, b := range fn.Blocks {
			for _, in := range b.Instrs {
				if !staticPure(in) {
					ok = false
					break outer
				}
			}
		}
	}
	e.mergeInfo[fn] = &mergeable{static: ok}
	return ok
}

type walker struct {
	e      *Exec
	st     *State
	tmp    *Frame
	stop   *ssa.BasicBlock // nil: run to Return
	ends   []pathEnd
	limit  int
	budget int
	depth  int
}

func (w *walker) walk(blk, prev *ssa.BasicBlock, cond *Term, onPath map[int]int) {
	e, st, tmp := w.e, w.st, w.tmp
	for {
		if blk == w.stop {
			w.ends = append(w.ends, pathEnd{cond: cond, env: tmp.env, last: prev})
			if len(w.ends) > w.limit {
				panic(impureSignal{"too many paths"})
			}
			return
		}
		onPath[blk.Index]++
		if onPath[blk.Index] > 40 {
			panic(impureSignal{"loop"})
		}
		tmp.block, tmp.prev, tmp.ip = blk, prev, 0
		var next *ssa.BasicBlock
		for tmp.ip < len(blk.Instrs) {
			in := blk.Instrs[tmp.ip]
			w.budget--
			if w.budget < 0 {
				panic(impureSignal{"budget"})
			}
			e.curInstr = in
			switch x := in.(type) {
			case *ssa.If:
				c := e.term(st, x.Cond)
				if c.IsConst() {
					if c.val == 1 {
						next = blk.Succs[0]
					} else {
						next = blk.Succs[1]
					}
				} else {
					// fork the walk
					saved := tmp.env
					envT := make(map[ssa.Value]Value, len(saved)+8)
					for k, v := range saved {
						envT[k] = v
					}
					opT := make(map[int]int, len(onPath))
					for k, v := range onPath {
						opT[k] = v
					}
					tmp.env = envT
					w.walk(blk.Succs[0], blk, e.c.And(cond, c), opT)
					envF := make(map[ssa.Value]Value, len(saved)+8)
					for k, v := range saved {
						envF[k] = v
					}
					tmp.env = envF
					w.walk(blk.Succs[1], blk, e.c.And(cond, e.c.Not(c)), onPath)
					return
				}
				tmp.ip = len(blk.Instrs)
			case *ssa.Jump:
				next = blk.Succs[0]
				tmp.ip = len(blk.Instrs)
			case *ssa.Return:
				if w.stop != nil {
					panic(impureSignal{"return inside region"})
				}
				var res Value
				switch len(x.Results) {
				case 0:
				case 1:
					res = e.val(st, x.Results[0])
				default:
					tv := make([]Value, len(x.Results))
					for i, r := range x.Results {
						tv[i] = e.val(st, r)
					}
					res = TupleV{tv}
				}
				w.ends = append(w.ends, pathEnd{cond: cond, env: tmp.env, last: blk, ret: res})
				if len(w.ends) > w.limit {
					panic(impureSignal{"too many paths"})
				}
				return
			case *ssa.Call:
				w.pureCall(x)
			default:
				if !staticPure(in) {
					panic(impureSignal{"impure instruction"})
				}
				e.exec(st, tmp, in)
			}
		}
		if next == nil {
			panic(impureSignal{"no successor"})
		}
		prev, blk = blk, next
	}
}

func (w *walker) pureCall(x *ssa.Call) {
	e, st, tmp := w.e, w.st, w.tmp
	if x.Call.IsInvoke() {
		panic(impureSignal{"invoke"})
	}
	fv, args := e.resolve(st, &x.Call)
	name := fv.intrinsic
	if fv.fn != nil {
		name = fv.fn.String()
		if fv.fn.Origin() != nil {
			name = fv.fn.Origin().String()
		}
	}
	if h, ok := e.lookupIntrinsic(name, fv); ok {
		if !pureIntrinsic[name] {
			panic(impureSignal{"impure intrinsic " + name})
		}
		tmp.env[x] = h(e, st, fv, args, &x.Call)
		tmp.ip++
		return
	}
	if fv.fn == nil || !e.fnStaticPure(fv.fn) || w.depth > 6 {
		panic(impureSignal{"impure callee"})
	}
	v := e.summarise(st, fv, args, w.limit, &w.budget, w.depth+1)
	tmp.env[x] = v
	tmp.ip++
	// restore walker's frame as top (summarise swapped it)
	e.curInstr = x
}

// summarise runs a statically pure callee on all paths and merges the results.
func (e *Exec) summarise(st *State, fv FuncV, args []Value, limit int, budget *int, depth int) Value {
	fn := fv.fn
	nf := &Frame{fn: fn, block: fn.Blocks[0], env: make(map[ssa.Value]Value, 32), visits: map[int]int{}}
	for i, p := range fn.Params {
		nf.env[p] = args[i]
	}
	for i, fvv := range fn.FreeVars {
		nf.env[fvv] = fv.binds[i]
	}
	st.frames = append(st.frames, nf)
	defer func() { st.frames = st.frames[:len(st.frames)-1] }()
	w := &walker{e: e, st: st, tmp: nf, limit: limit, budget: *budget, depth: depth}
	w.walk(fn.Blocks[0], nil, e.c.True, map[int]int{})
	*budget = w.budget
	if len(w.ends) == 0 {
		panic(impureSignal{"no return path"})
	}
	acc := w.ends[len(w.ends)-1].ret
	for i := len(w.ends) - 2; i >= 0; i-- {
		if acc == nil {
			break
		}
		m, ok := e.mergeV(w.ends[i].cond, w.ends[i].ret, acc)
		if !ok {
			panic(impureSignal{"unmergeable results"})
		}
		acc = m
	}
	return acc
}

func (e *Exec) pureGuard(f func()) (ok bool) {
	e.pure++
	saved := e.curInstr
	defer func() {
		e.pure--
		e.curInstr = saved
		if r := recover(); r != nil {
			if _, isImpure := r.(impureSignal); isImpure {
				ok = false
				return
			}
			panic(r)
		}
	}()
	f()
	return true
}

func (e *Exec) tryMergeCall(st *State, f *Frame, fv FuncV, args []Value, retTo ssa.Value) bool {
	if e.ob.MergePaths <= 0 || st.tolerant > 0 || !e.fnStaticPure(fv.fn) {
		return false
	}
	var res Value
	nframes := len(st.frames)
	ok := e.pureGuard(func() {
		budget := 4000
		res = e.summarise(st, fv, args, e.ob.MergePaths, &budget, 0)
	})
	st.frames = st.frames[:nframes]
	if !ok {
		return false
	}
	e.res.Merged++
	if retTo != nil {
		f.env[retTo] = res
	}
	f.ip++
	return true
}

func (e *Exec) tryIfConvert(st *State, f *Frame, x *ssa.If, cond *Term) bool {
	if e.ob.MergePaths <= 0 || st.tolerant > 0 {
		return false
	}
	if e.noConvert[x] {
		return false
	}
	ip := e.ipdoms(f.fn)
	j := ip[f.block.Index]
	if j < 0 {
		e.noConvert[x] = true
		return false
	}
	J := f.fn.Blocks[j]
	// static admissibility of the region
	if _, ok := e.regionOK[x]; !ok {
		good := true
		seen := map[int]bool{}
		var visit func(b *ssa.BasicBlock)
		visit = func(b *ssa.BasicBlock) {
			if !good || b == J || seen[b.Index] {
				return
			}
			seen[b.Index] = true
			if len(seen) > 24 {
				good = false
				return
			}
			for _, in := range b.Instrs {
				if !staticPure(in) {
					good = false
					return
				}
				if _, isRet := in.(*ssa.Return); isRet {
					good = false
					return
				}
			}
			for _, s := range b.Succs {
				visit(s)
			}
		}
		for _, s := range f.block.Succs {
			visit(s)
		}
		e.regionOK[x] = good
	}
	if !e.regionOK[x] {
		e.noConvert[x] = true
		return false
	}
	tmp := &Frame{fn: f.fn, block: f.block, prev: f.prev, env: nil, visits: map[int]int{}}
	nframes := len(st.frames)
	var ends []pathEnd
	ok := e.pureGuard(func() {
		st.frames[nframes-1] = tmp
		w := &walker{e: e, st: st, tmp: tmp, stop: J, limit: e.ob.MergePaths, budget: 4000}
		envT := make(map[ssa.Value]Value, len(f.env)+8)
		for k, v := range f.env {
			envT[k] = v
		}
		tmp.env = envT
		opT := map[int]int{}
		w.walk(f.block.Succs[0], f.block, cond, opT)
		envF := make(map[ssa.Value]Value, len(f.env)+8)
		for k, v := range f.env {
			envF[k] = v
		}
		tmp.env = envF
		w.walk(f.block.Succs[1], f.block, e.c.Not(cond), map[int]int{})
		ends = w.ends
	})
	st.frames = st.frames[:nframes]
	st.frames[nframes-1] = f
	if !ok || len(ends) == 0 {
		return false
	}
	// phis of J
	newVals := map[ssa.Value]Value{}
	nphi := 0
	for _, in := range J.Instrs {
		ph, isPhi := in.(*ssa.Phi)
		if !isPhi {
			break
		}
		nphi++
		var acc Value
		for i := len(ends) - 1; i >= 0; i-- {
			idx := -1
			for k, p := range J.Preds {
				if p == ends[i].last {
					idx = k
					break
				}
			}
			if idx < 0 {
				return false
			}
			var v Value
			edge := ph.Edges[idx]
			switch ev := edge.(type) {
			case *ssa.Const:
				v = e.constValue(ev)
			case *ssa.Global:
				v = e.globalPtr(st, ev)
			case *ssa.Function:
				v = FuncV{fn: ev}
			default:
				var has bool
				v, has = ends[i].env[edge]
				if !has {
					return false
				}
			}
			if acc == nil {
				acc = v
				continue
			}
			m, ok := e.mergeV(ends[i].cond, v, acc)
			if !ok {
				return false
			}
			acc = m
		}
		newVals[ph] = acc
	}
	// every other value: identical on all paths -> keep; different (a block on all
	// paths computed it from path-dependent inputs, or a loop inside the region
	// re-defined it) -> ite over the paths; unmergeable -> no conversion.
	for k, v := range ends[0].env {
		if _, isPhi := newVals[k]; isPhi {
			continue
		}
		same := true
		inAll := true
		for _, pe := range ends[1:] {
			ov, ok := pe.env[k]
			if !ok {
				inAll = false
				break
			}
			if !sameValue(ov, v) {
				same = false
			}
		}
		if !inAll {
			if _, had := f.env[k]; had {
				return false
			}
			continue // defined on some paths only: cannot be live after the join
		}
		if same {
			if old, had := f.env[k]; !had || !sameValue(old, v) {
				newVals[k] = v
			}
			continue
		}
		acc := ends[len(ends)-1].env[k]
		for i := len(ends) - 2; i >= 0; i-- {
			m, ok := e.mergeV(ends[i].cond, ends[i].env[k], acc)
			if !ok {
				return false
			}
			acc = m
		}
		newVals[k] = acc
	}
	for k, v := range newVals {
		f.env[k] = v
	}
	f.visits[J.Index]++
	f.prev = ends[0].last
	f.block = J
	f.ip = nphi
	e.res.IfConverted++
	return true
}
