package main

// Per-worker snapshot of the heap after package initialisation.  Running the
// initialisers of the packages a harness touches (tables of strconv, base64,
// pion, the repository's own globals) costs far more than most work items,
// and it is the same for every item of an obligation: a worker runs them once
// in a private context and re-homes the (constant) result into the fresh
// term context of each item.

import (
	"golang.org/x/tools/go/ssa"
)

type initSnapshot struct {
	order   []*ssa.Package
	heap    map[int]Value
	nextObj int
	inited  map[*ssa.Package]bool
	notes   map[string]int
	valid   bool
}

type worker struct {
	globals map[*ssa.Global]int
	order   []*ssa.Package
	snap    *initSnapshot
	ob      *Obligation
}

type rehomer struct {
	c     *Ctx
	memoS map[*StructV]*StructV
	memoA map[*ArrayV]*ArrayV
	ok    bool
}

func (r *rehomer) term(t *Term) *Term {
	if t.op != OpConst {
		r.ok = false
		return t
	}
	if t.sort.IsBool() {
		return r.c.Bool(t.val == 1)
	}
	return r.c.Const(t.sort.w, t.val)
}

func (r *rehomer) val(v Value) Value {
	switch x := v.(type) {
	case *Term:
		return r.term(x)
	case *StructV:
		if y, ok := r.memoS[x]; ok {
			return y
		}
		f := make([]Value, len(x.f))
		y := &StructV{f}
		r.memoS[x] = y
		for i := range f {
			f[i] = r.val(x.f[i])
		}
		return y
	case *ArrayV:
		if y, ok := r.memoA[x]; ok {
			return y
		}
		el := make([]Value, len(x.e))
		y := &ArrayV{el}
		r.memoA[x] = y
		for i := range el {
			if i > 0 && sameValue(x.e[i], x.e[i-1]) {
				el[i] = el[i-1]
				continue
			}
			el[i] = r.val(x.e[i])
		}
		return y
	case *StrV:
		b := make([]*Term, len(x.b))
		for i := range b {
			b[i] = r.term(x.b[i])
		}
		return &StrV{b}
	case SliceV:
		return SliceV{base: x.base, off: x.off, len: r.term(x.len), cap: x.cap}
	case IfaceV:
		if x.t == nil {
			return x
		}
		return IfaceV{t: x.t, v: r.val(x.v)}
	case FuncV:
		if len(x.binds) == 0 {
			return x
		}
		b := make([]Value, len(x.binds))
		for i := range b {
			b[i] = r.val(x.binds[i])
		}
		return FuncV{fn: x.fn, binds: b, intrinsic: x.intrinsic}
	case TupleV:
		tv := make([]Value, len(x.v))
		for i := range tv {
			tv[i] = r.val(x.v[i])
		}
		return TupleV{tv}
	case *MapObj:
		ne := make([]MapEntry, len(x.entries))
		for i, en := range x.entries {
			ne[i] = MapEntry{r.val(en.k), r.val(en.v)}
		}
		return &MapObj{ne}
	case *ChanObj:
		q := make([]Value, len(x.q))
		for i := range q {
			q[i] = r.val(x.q[i])
		}
		return &ChanObj{q: q, cap: x.cap, closed: x.closed}
	case *GhostArr, *RangeIter:
		r.ok = false
		return v
	}
	return v // Ptr, MapV, ChanV, OpaqueV, nil
}

// restore installs the snapshot into a fresh state; false if it cannot be used.
func (s *initSnapshot) restore(e *Exec, st *State) bool {
	r := &rehomer{c: e.c, memoS: map[*StructV]*StructV{}, memoA: map[*ArrayV]*ArrayV{}, ok: true}
	heap := make(map[int]Value, len(s.heap)+64)
	for k, v := range s.heap {
		heap[k] = r.val(v)
	}
	if !r.ok {
		return false
	}
	st.heap = heap
	st.nextObj = s.nextObj
	for p := range s.inited {
		st.inited[p] = true
	}
	for k, v := range s.notes {
		e.res.Notes[k] += v
	}
	return true
}
