package main

// Ghost file system (DESIGN 4-C16): a model of the handful of os / encoding/json
// calls that token/stateful.go makes.  A file is a list of records (the values
// handed to json.Encoder.Encode, copied) plus a version: size = 64 bytes per
// record, mtime = a counter in nanoseconds that moves by ONE on every
// modification ("successive versions differ in size or modification time").
// Rename replaces atomically.  In the native replay the real file system is
// used (in a temporary directory); fault and crash injection are therefore
// not offered: a counterexample must be replayable.

import (
	"fmt"
	"strings"
	"go/types"
	"sort"

	"golang.org/x/tools/go/ssa"
)

type ghostFile struct {
	records []Value // *StructV copies of the encoded values' pointees (with their dynamic type)
	rtypes  []types.Type
	mtime   uint64
	size    int // sum of the records' weights: grows and shrinks with the strings and collections encoded
}

// weight is the model's stand-in for the length of a value's JSON text: 8 per
// record plus the lengths of all strings and the element counts of all
// slices and maps reachable from it.  Two versions of a file have the same
// size when their contents differ only in strings of equal length (a bcrypt
// hash replaced by another, "old" by "new"), which is how same-size rewrites
// arise in practice; versions are then told apart by the modification time only.
func (e *Exec) weight(st *State, v Value, depth int) int {
	if depth > 8 {
		return 0
	}
	switch x := v.(type) {
	case *StrV:
		return len(x.b)
	case *StructV:
		n := 0
		for _, f := range x.f {
			n += e.weight(st, f, depth+1)
		}
		return n
	case *ArrayV:
		n := 0
		for _, f := range x.e {
			n += e.weight(st, f, depth+1)
		}
		return n
	case IfaceV:
		if x.t == nil {
			return 0
		}
		return e.weight(st, x.v, depth+1)
	case Ptr:
		if x.IsNil() {
			return 0
		}
		if root, ok := st.heap[x.obj]; ok {
			return 1 + e.weight(st, e.loadPath(st, root, x.path), depth+1)
		}
	case SliceV:
		if x.base.obj == 0 || !x.len.IsConst() {
			return 0
		}
		n := int(x.len.val)
		w := n
		for i := 0; i < n; i++ {
			w += e.weight(st, e.load(st, e.sliceElemPtr(x, e.c.Const(64, uint64(i)))), depth+1)
		}
		return w
	case MapV:
		if x.obj == 0 {
			return 0
		}
		w := 0
		for _, en := range e.mapObj(st, x).entries {
			w += 1 + e.weight(st, en.k, depth+1) + e.weight(st, en.v, depth+1)
		}
		return w
	}
	return 0
}

type ghostFS struct {
	files   map[string]*ghostFile
	handles map[int]*ghostHandle // *os.File heap object -> handle
	clock   uint64
	temps   int
	// crash points (zzverif.Crashable): the k-th file-system mutation inside the
	// armed region does not happen; the operation is abandoned there
	armed   bool
	crashAt int
	ops     int
	crashed bool
}

type ghostHandle struct {
	name string
	pos  int
}

func (st *State) fs() *ghostFS {
	if st.gfs == nil {
		st.gfs = &ghostFS{files: map[string]*ghostFile{}, handles: map[int]*ghostHandle{}, clock: 1000}
	}
	return st.gfs
}

func (g *ghostFS) clone() *ghostFS {
	n := &ghostFS{files: map[string]*ghostFile{}, handles: map[int]*ghostHandle{}, clock: g.clock, temps: g.temps,
		armed: g.armed, crashAt: g.crashAt, ops: g.ops, crashed: g.crashed}
	for k, f := range g.files {
		c := *f
		c.records = append([]Value(nil), f.records...)
		c.rtypes = append([]types.Type(nil), f.rtypes...)
		n.files[k] = &c
	}
	for k, h := range g.handles {
		c := *h
		n.handles[k] = &c
	}
	return n
}

func (g *ghostFS) touch(f *ghostFile) {
	g.clock++
	f.mtime = g.clock
}

func (e *Exec) errNotExist(st *State) Value {
	p := e.prog.ImportedPackage("io/fs")
	if p == nil {
		panic(e.abort("io/fs not loaded"))
	}
	return e.load(st, e.globalPtr(st, p.Var("ErrNotExist")))
}

func (e *Exec) ghostStatValue(st *State, name string, f *ghostFile) Value {
	ft := e.namedType("os", "fileStat")
	z := e.zero(ft).(*StructV)
	fl := append([]Value(nil), z.f...)
	fl[0] = e.strConst(name)
	fl[1] = e.c.Const(64, uint64(f.size))
	// modTime: a time.Time without monotonic reading: 2026-01-01 + mtime ns
	fl[3] = &StructV{[]Value{e.c.Const(64, f.mtime%1000000000), e.c.Const(64, 62135596800+1767225600+f.mtime/1000000000), Ptr{}}}
	obj := e.alloc(st, &StructV{fl})
	return IfaceV{t: types.NewPointer(ft), v: obj}
}

func (e *Exec) ghostNewHandle(st *State, name string) Value {
	ft := e.namedType("os", "File")
	obj := e.alloc(st, e.zero(ft))
	st.fs().handles[obj.obj] = &ghostHandle{name: name}
	return obj
}

func (e *Exec) ghostHandleOf(st *State, v Value) *ghostHandle {
	p, ok := v.(Ptr)
	if !ok || p.IsNil() {
		panic(e.abort("ghost fs: nil *os.File"))
	}
	h := st.fs().handles[p.obj]
	if h == nil {
		panic(e.abort("ghost fs: unknown *os.File"))
	}
	return h
}

// crashedFrame: the handler unwound the stack (a crash point fired); the
// caller must not touch the frame it was executing.
type crashedFrame struct{}

// mutation is called by every mutating ghost operation BEFORE it takes
// effect.  It reports true if the process "crashes" here: the frames down to
// zzverif.Crashable are discarded without running deferred calls, every lock
// is gone (memory is lost with the process), and execution continues in
// Crashable after the call of the abandoned operation.
func (e *Exec) mutation(st *State) bool {
	g := st.fs()
	if !g.armed {
		return false
	}
	if g.ops != g.crashAt {
		g.ops++
		return false
	}
	idx := -1
	for i := len(st.frames) - 1; i >= 0; i-- {
		f := st.frames[i]
		if f.fn != nil && f.fn.String() == vpkg+"Crashable" {
			idx = i
			break
		}
		if f.marker {
			panic(e.abort("crash point inside a nested helper call"))
		}
	}
	if idx < 0 {
		panic(e.abort("crash point outside zzverif.Crashable"))
	}
	st.frames = st.frames[:idx+1]
	st.frames[idx].ip++ // past the call of the abandoned operation
	st.held = map[string]bool{}
	st.heldNames = map[string]string{}
	g.armed = false
	g.crashed = true
	e.res.noteOnce("crash points: the k-th file-system mutation (OpenFile/CreateTemp/Remove/Rename/Encode/WriteFile) inside Crashable does not happen and the operation is abandoned there (no deferred calls, all locks lost); a process crash, not a power failure: data written before the crash point is on disk")
	return true
}

// ghostResolve finds the file below dir that a (possibly symbolic) relative
// name denotes: concrete names literally; symbolic bytes by deciding, file by
// file, whether the name equals that file's relative path (forking).
func (e *Exec) ghostResolve(st *State, dir string, nv Value) (string, bool) {
	sv, ok := nv.(*StrV)
	if !ok {
		panic(e.abort("ghost fs: file name is %T", nv))
	}
	concrete := true
	for _, b := range sv.b {
		if !b.IsConst() {
			concrete = false
		}
	}
	g := st.fs()
	if concrete {
		n := e.cstr(nv)
		if strings.HasPrefix(n, "/") {
			return "", false
		}
		_, ok := g.files[dir+"/"+n]
		return n, ok
	}
	for _, full := range ghostFileNames(g) {
		if !strings.HasPrefix(full, dir+"/") {
			continue
		}
		rel := full[len(dir)+1:]
		if len(rel) != len(sv.b) {
			continue
		}
		cond := e.c.True
		for i := range sv.b {
			cond = e.c.And(cond, e.c.Eq(sv.b[i], e.c.Const(8, uint64(rel[i]))))
		}
		if e.decide(st, cond) {
			return rel, true
		}
	}
	return "", false
}

func ghostNote(e *Exec) {
	e.res.noteOnce("ghost file system: os.Stat/Open/OpenFile/CreateTemp/Remove/Rename/MkdirAll, File.Stat/Close/Name and json Encoder.Encode / Decoder.Decode are models (records + (size,mtime) version, mtime moves by 1 ns per modification); natively the real file system")
}

func init() {
	nilErr := func() Value { return IfaceV{} }
	add := func(name string, h handler) { ghostIntrinsics[name] = h }
	add("os.Stat", func(e *Exec, st *State, fv FuncV, a []Value, cc *ssa.CallCommon) Value {
		ghostNote(e)
		name := e.cstr(a[0])
		f := st.fs().files[name]
		if f == nil {
			return TupleV{[]Value{IfaceV{}, e.errNotExist(st)}}
		}
		return TupleV{[]Value{e.ghostStatValue(st, name, f), nilErr()}}
	})
	add("os.Open", func(e *Exec, st *State, fv FuncV, a []Value, cc *ssa.CallCommon) Value {
		ghostNote(e)
		name := e.cstr(a[0])
		if st.fs().files[name] == nil {
			return TupleV{[]Value{Ptr{}, e.errNotExist(st)}}
		}
		return TupleV{[]Value{e.ghostNewHandle(st, name), nilErr()}}
	})
	add("os.OpenFile", func(e *Exec, st *State, fv FuncV, a []Value, cc *ssa.CallCommon) Value {
		ghostNote(e)
		if e.mutation(st) {
			return crashedFrame{}
		}
		name := e.cstr(a[0])
		g := st.fs()
		if g.files[name] == nil {
			nf := &ghostFile{}
			g.touch(nf)
			g.files[name] = nf
		}
		return TupleV{[]Value{e.ghostNewHandle(st, name), nilErr()}}
	})
	add("os.CreateTemp", func(e *Exec, st *State, fv FuncV, a []Value, cc *ssa.CallCommon) Value {
		ghostNote(e)
		if e.mutation(st) {
			return crashedFrame{}
		}
		g := st.fs()
		g.temps++
		name := fmt.Sprintf("%s/%s%d", e.cstr(a[0]), e.cstr(a[1]), g.temps)
		nf := &ghostFile{}
		g.touch(nf)
		g.files[name] = nf
		return TupleV{[]Value{e.ghostNewHandle(st, name), nilErr()}}
	})
	add("os.MkdirAll", func(e *Exec, st *State, fv FuncV, a []Value, cc *ssa.CallCommon) Value { return nilErr() })
	add("os.MkdirTemp", func(e *Exec, st *State, fv FuncV, a []Value, cc *ssa.CallCommon) Value {
		g := st.fs()
		g.temps++
		return TupleV{[]Value{e.strConst(fmt.Sprintf("/ghost%d", g.temps)), nilErr()}}
	})
	add("os.RemoveAll", func(e *Exec, st *State, fv FuncV, a []Value, cc *ssa.CallCommon) Value {
		g := st.fs()
		dir := e.cstr(a[0])
		for k := range g.files {
			if k == dir || strings.HasPrefix(k, dir+"/") {
				delete(g.files, k)
			}
		}
		return nilErr()
	})
	add("os.Remove", func(e *Exec, st *State, fv FuncV, a []Value, cc *ssa.CallCommon) Value {
		ghostNote(e)
		if e.mutation(st) {
			return crashedFrame{}
		}
		name := e.cstr(a[0])
		g := st.fs()
		if g.files[name] == nil {
			return e.errNotExist(st)
		}
		delete(g.files, name)
		return nilErr()
	})
	add("os.Rename", func(e *Exec, st *State, fv FuncV, a []Value, cc *ssa.CallCommon) Value {
		ghostNote(e)
		if e.mutation(st) {
			return crashedFrame{}
		}
		g := st.fs()
		from, to := e.cstr(a[0]), e.cstr(a[1])
		f := g.files[from]
		if f == nil {
			return e.errNotExist(st)
		}
		delete(g.files, from)
		g.files[to] = f // atomic replacement; the file keeps its own mtime, as on a real system
		return nilErr()
	})
	// ---- os.Root: operations confined to a directory ----
	add("os.OpenRoot", func(e *Exec, st *State, fv FuncV, a []Value, cc *ssa.CallCommon) Value {
		ghostNote(e)
		rt := e.namedType("os", "Root")
		obj := e.alloc(st, e.zero(rt))
		st.fs().handles[obj.obj] = &ghostHandle{name: e.cstr(a[0])}
		return TupleV{[]Value{obj, nilErr()}}
	})
	add("(*os.Root).Close", func(e *Exec, st *State, fv FuncV, a []Value, cc *ssa.CallCommon) Value { return nilErr() })
	add("(*os.Root).Remove", func(e *Exec, st *State, fv FuncV, a []Value, cc *ssa.CallCommon) Value {
		ghostNote(e)
		h := e.ghostHandleOf(st, a[0])
		rel, ok := e.ghostResolve(st, h.name, a[1])
		if e.mutation(st) {
			return crashedFrame{}
		}
		if !ok {
			return e.errNotExist(st)
		}
		delete(st.fs().files, h.name+"/"+rel)
		e.res.noteOnce("model of os.Root: a name is looked up literally below the root directory (names that are absolute, climb out with '..' or are not in canonical form match no file); the kernel-level confinement of os.Root itself is trusted")
		return nilErr()
	})
	add("os.WriteFile", func(e *Exec, st *State, fv FuncV, a []Value, cc *ssa.CallCommon) Value {
		ghostNote(e)
		if e.mutation(st) {
			return crashedFrame{}
		}
		g := st.fs()
		nf := &ghostFile{}
		if sl, ok := a[1].(SliceV); ok && sl.len.IsConst() {
			nf.size = int(sl.len.val)
		}
		g.touch(nf)
		g.files[e.cstr(a[0])] = nf
		return nilErr()
	})
	add("(*os.File).Name", func(e *Exec, st *State, fv FuncV, a []Value, cc *ssa.CallCommon) Value {
		return e.strConst(e.ghostHandleOf(st, a[0]).name)
	})
	add("(*os.File).Sync", func(e *Exec, st *State, fv FuncV, a []Value, cc *ssa.CallCommon) Value { return nilErr() })
	add("(*os.File).Close", func(e *Exec, st *State, fv FuncV, a []Value, cc *ssa.CallCommon) Value { return nilErr() })
	add("(*os.File).Stat", func(e *Exec, st *State, fv FuncV, a []Value, cc *ssa.CallCommon) Value {
		h := e.ghostHandleOf(st, a[0])
		f := st.fs().files[h.name]
		if f == nil {
			return TupleV{[]Value{IfaceV{}, e.errNotExist(st)}}
		}
		return TupleV{[]Value{e.ghostStatValue(st, h.name, f), nilErr()}}
	})
	add("(*encoding/json.Encoder).Encode", func(e *Exec, st *State, fv FuncV, a []Value, cc *ssa.CallCommon) Value {
		ghostNote(e)
		if e.mutation(st) {
			return crashedFrame{}
		}
		enc := e.load(st, a[0].(Ptr)).(*StructV)
		w := enc.f[0].(IfaceV)
		h := e.ghostHandleOf(st, w.v)
		f := st.fs().files[h.name]
		if f == nil {
			panic(e.abort("ghost fs: write to a removed file"))
		}
		iv := a[1].(IfaceV)
		p, ok := iv.v.(Ptr)
		if !ok || p.IsNil() {
			panic(e.abort("ghost fs: Encode of a non-pointer value"))
		}
		rec := e.load(st, p)
		f.records = append(f.records, rec)
		f.rtypes = append(f.rtypes, iv.t)
		f.size += 8 + e.weight(st, rec, 0)
		st.fs().touch(f)
		return nilErr()
	})
	add("(*encoding/json.Decoder).Decode", func(e *Exec, st *State, fv FuncV, a []Value, cc *ssa.CallCommon) Value {
		ghostNote(e)
		dec := e.load(st, a[0].(Ptr)).(*StructV)
		r := dec.f[0].(IfaceV)
		h := e.ghostHandleOf(st, r.v)
		f := st.fs().files[h.name]
		if f == nil || h.pos >= len(f.records) {
			p := e.prog.ImportedPackage("io")
			return e.load(st, e.globalPtr(st, p.Var("EOF")))
		}
		iv := a[1].(IfaceV)
		e.store(st, iv.v.(Ptr), f.records[h.pos])
		h.pos++
		return nilErr()
	})
}

var ghostIntrinsics = map[string]handler{}

func ghostFileNames(g *ghostFS) []string {
	var out []string
	for k := range g.files {
		out = append(out, k)
	}
	sort.Strings(out)
	return out
}
