package main

// State merging at the return of designated functions ("merge_funcs" in the
// obligation): the callee is explored on all its paths from the current
// state; the resulting states are folded back into one whose heap cells and
// return value are ite-terms over the sub-path conditions.  This keeps e.g.
// the statistics branches inside Cache.Store from multiplying the paths of
// the caller.  If the final states cannot be merged (different shapes or
// pointers) they simply continue as separate paths.

import (
	"golang.org/x/tools/go/ssa"
)

func (e *Exec) mergedCall(st *State, f *Frame, fv FuncV, args []Value, retTo ssa.Value) {
	basePC := len(st.pc)
	baseDecided := st.decided
	m := &Frame{marker: true}
	st.frames = append(st.frames, m)
	stop := len(st.frames)
	e.pushCall(st, fv, args, nil)
	savedInstr := e.curInstr
	work := []*State{st}
	var finals []*State
	for len(work) > 0 {
		s := work[len(work)-1]
		work = work[:len(work)-1]
		if e.runTo(s, stop, &work) {
			finals = append(finals, s)
		}
		if e.res.Aborted != "" {
			panic(abortSignal{e.res.Aborted})
		}
		if len(finals)+len(work) > 256 {
			panic(e.abort("merged call: too many sub-paths"))
		}
	}
	e.curInstr = savedInstr
	e.curState = st
	if len(finals) == 0 {
		panic(deadSignal{"no path returns from merged call"})
	}
	finish := func(s *State) {
		mk := s.top()
		res := mk.result
		s.frames = s.frames[:len(s.frames)-1]
		c := s.top()
		if retTo != nil {
			c.env[retTo] = res
		}
		c.ip++
	}
	if len(finals) == 1 {
		fin := finals[0]
		if fin != st {
			*st = *fin
		}
		finish(st)
		return
	}
	merged, ok := e.mergeStates(finals, basePC)
	if !ok {
		e.res.note("merged call: states not mergeable, continuing on separate paths")
		for _, s := range finals {
			finish(s)
		}
		// continue with the first, queue the others
		first := finals[0]
		for _, s := range finals[1:] {
			if s == st { // keep st as the continuing one
				first, s = s, first
			}
			e.work = append(e.work, s)
		}
		if first != st {
			*st = *first
		}
		return
	}
	merged.decided = &decidedLayer{parent: baseDecided, m: map[int]uint64{}}
	*st = *merged
	finish(st)
	e.res.StateMerges++
}

func (e *Exec) mergeStates(fs []*State, basePC int) (*State, bool) {
	conds := make([]*Term, len(fs))
	for i, s := range fs {
		c := e.c.True
		for _, t := range s.pc[basePC:] {
			c = e.c.And(c, t)
		}
		conds[i] = c
	}
	base := fs[len(fs)-1]
	out := *base
	out.heap = make(map[int]Value, len(base.heap))
	for k, v := range base.heap {
		out.heap[k] = v
	}
	// held locks must agree
	for _, s := range fs[:len(fs)-1] {
		if len(s.held) != len(base.held) {
			return nil, false
		}
		for k := range s.held {
			if !base.held[k] {
				return nil, false
			}
		}
		if s.choicePos != base.choicePos || len(s.choices) != len(base.choices) {
			return nil, false
		}
		if s.nextObj > out.nextObj {
			out.nextObj = s.nextObj
		}
		out.imprecise = out.imprecise || s.imprecise
		out.stubCalls = max(out.stubCalls, s.stubCalls)
	}
	// result in the marker frame
	var res Value = base.top().result
	for i := len(fs) - 2; i >= 0; i-- {
		s := fs[i]
		r := s.top().result
		if (r == nil) != (res == nil) {
			return nil, false
		}
		if r != nil {
			m, ok := e.mergeV(conds[i], r, res)
			if !ok {
				return nil, false
			}
			res = m
		}
		for k, v := range s.heap {
			bv, has := out.heap[k]
			if !has {
				out.heap[k] = v
				continue
			}
			if sameHeapValue(v, bv) {
				continue
			}
			mv, ok := e.mergeHeapV(conds[i], v, bv)
			if !ok {
				return nil, false
			}
			out.heap[k] = mv
		}
	}
	// frames: copy of base's with the merged result
	out.frames = append([]*Frame(nil), base.frames...)
	mk := *base.top()
	mk.result = res
	out.frames[len(out.frames)-1] = &mk
	// path condition: base prefix + disjunction of the sub-path conditions
	disj := e.c.False
	for _, c := range conds {
		disj = e.c.Or(disj, c)
	}
	out.pc = append(append([]*Term(nil), base.pc[:basePC]...), disj)
	// base's model satisfies base.pc, hence the disjunction
	return &out, true
}

func sameHeapValue(a, b Value) bool {
	switch x := a.(type) {
	case *MapObj:
		y, ok := b.(*MapObj)
		return ok && x == y
	case *ChanObj:
		y, ok := b.(*ChanObj)
		return ok && x == y
	case *GhostArr:
		y, ok := b.(*GhostArr)
		return ok && x == y
	case *RangeIter:
		y, ok := b.(*RangeIter)
		return ok && x == y
	}
	return sameValue(a, b)
}

func (e *Exec) mergeHeapV(c *Term, a, b Value) (Value, bool) {
	switch x := a.(type) {
	case *GhostArr:
		y, ok := b.(*GhostArr)
		if !ok || x.name != y.name {
			return nil, false
		}
		n := *x
		n.arr = e.c.Ite(c, x.arr, y.arr)
		return &n, true
	case *MapObj:
		y, ok := b.(*MapObj)
		if !ok || len(x.entries) != len(y.entries) {
			return nil, false
		}
		ne := make([]MapEntry, len(x.entries))
		for i := range ne {
			if !sameKeyIdentity(x.entries[i].k, y.entries[i].k) {
				return nil, false
			}
			mv, ok := e.mergeV(c, x.entries[i].v, y.entries[i].v)
			if !ok {
				return nil, false
			}
			ne[i] = MapEntry{x.entries[i].k, mv}
		}
		return &MapObj{ne}, true
	case *ChanObj, *RangeIter:
		return nil, false
	}
	return e.mergeV(c, a, b)
}
