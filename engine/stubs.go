package main

import (
	"fmt"
	"strings"

	"golang.org/x/tools/go/ssa"
)

// buildStubs turns the obligation's "stubs" table into handlers.
//   "nop"    : evaluate arguments, return zero values
//   "havoc"  : return fresh unconstrained values of the result types (named <fn>#k.*, part of the model)
//   "model:<pkgdir>.<Func>" : call this harness function instead (same signature; receiver becomes first parameter)
func buildStubs(o *Obligation) map[string]handler {
	m := map[string]handler{}
	for name, kind := range o.StubSpec {
		name, kind := name, kind
		switch {
		case kind == "nop":
			m[name] = func(e *Exec, st *State, fv FuncV, a []Value, cc *ssa.CallCommon) Value {
				e.res.noteOnce("stub(nop): " + name)
				return e.zeroResults(fv.fn.Signature)
			}
		case kind == "havoc":
			m[name] = func(e *Exec, st *State, fv FuncV, a []Value, cc *ssa.CallCommon) Value {
				e.res.noteOnce("stub(havoc): " + name)
				st.stubCalls++
				hint := fmt.Sprintf("%s#%d", shortName(name), st.stubCalls)
				sig := fv.fn.Signature
				switch sig.Results().Len() {
				case 0:
					return nil
				case 1:
					return e.havocInput(sig.Results().At(0).Type(), hint)
				}
				return e.havocInput(sig.Results(), hint)
			}
		case strings.HasPrefix(kind, "model:"):
			target := kind[len("model:"):]
			m[name] = func(e *Exec, st *State, fv FuncV, a []Value, cc *ssa.CallCommon) Value {
				e.res.noteOnce("stub(model " + target + "): " + name)
				i := strings.LastIndex(target, ".")
				sp := e.prog.ImportedPackage(modPath + "/" + target[:i])
				if sp == nil {
					panic(e.abort("stub model package %s not loaded", target[:i]))
				}
				fn := sp.Func(target[i+1:])
				if fn == nil {
					panic(e.abort("stub model %s not found", target))
				}
				f := st.top()
				var retTo ssa.Value
				if c, ok := f.block.Instrs[f.ip].(*ssa.Call); ok {
					retTo = c
				}
				e.pushCall(st, FuncV{fn: fn}, a, retTo)
				return pushedFrame{}
			}
		default:
			panic("unknown stub kind " + kind)
		}
	}
	m[vpkg+"Param"] = func(e *Exec, st *State, fv FuncV, a []Value, cc *ssa.CallCommon) Value {
		n := e.cstr(a[0])
		v, ok := o.params[n]
		if !ok {
			panic(e.abort("v.Param(%q): not set in the spec for this tier", n))
		}
		return e.c.Const(64, uint64(int64(v)))
	}
	return m
}

func shortName(n string) string {
	if i := strings.LastIndex(n, "/"); i >= 0 {
		return n[i+1:]
	}
	return n
}
