package main

// Solver layer: one persistent `z3 -in` per worker with an assertion stack
// kept in sync with the path condition by push/pop; standalone dumps of
// verdict queries for the portfolio / cross-check.

import (
	"bufio"
	"context"
	"fmt"
	"io"
	"os"
	"os/exec"
	"strconv"
	"strings"
	"sync"
	"sync/atomic"
	"time"
)

type Result int

const (
	Unsat Result = iota
	Sat
	Unknown
)

func (r Result) String() string { return [...]string{"unsat", "sat", "unknown"}[r] }

type Model map[string]uint64 // variable name (or extra-term key) -> value (bool: 0/1)

type SolverStats struct {
	Queries    int
	Sat        int
	Unsat      int
	Unknown    int
	Seconds    float64
	Portfolio  int
	PortfolioS float64
	Winners    map[string]int
	CrossOK    int
	Fallbacks  int
}

type Solver struct {
	cmd     *exec.Cmd
	in      io.WriteCloser
	out     *bufio.Reader
	em      *Emitter
	stack   []*Term // asserted path condition, one push level each
	Stats   SolverStats
	timeout int // ms, per check-sat
	logf    *os.File
	dead    bool
}

var z3Path = "z3-new"

// check-sat-using runs a (non-incremental) tactic on the current assertion
// stack; it is several times faster than z3's incremental core on the
// modular 16-bit window arithmetic of these queries and still supports
// push/pop and get-value.
var hybridFastMs = 150

var checkSatCmd = "(check-sat-using qfaufbv)\n"

func NewSolver(timeoutMs int) *Solver {
	s := &Solver{timeout: timeoutMs}
	s.Stats.Winners = map[string]int{}
	s.start()
	return s
}

func (s *Solver) start() {
	s.cmd = exec.Command(z3Path, "-in", "-smt2")
	in, _ := s.cmd.StdinPipe()
	out, _ := s.cmd.StdoutPipe()
	s.cmd.Stderr = nil
	if err := s.cmd.Start(); err != nil {
		panic(err)
	}
	s.in = in
	s.out = bufio.NewReaderSize(out, 1<<16)
	if d := os.Getenv("GOSMT_LOG"); d != "" && s.logf == nil {
		s.logf, _ = os.Create(fmt.Sprintf("%s/z3-%d.smt2", d, time.Now().UnixNano()))
	}
	s.em = NewEmitter()
	s.stack = nil
	s.dead = false
	s.send("(set-option :global-declarations true)\n(set-option :timeout " + strconv.Itoa(s.timeout) + ")\n")
}

// Reset clears all solver state so that the process can serve the next work item.
func (s *Solver) Reset() {
	if s.dead || s.cmd == nil {
		s.restart()
		return
	}
	s.em = NewEmitter()
	s.stack = nil
	s.Stats = SolverStats{Winners: map[string]int{}}
	s.send("(reset)\n(set-option :global-declarations true)\n(set-option :timeout " + strconv.Itoa(s.timeout) + ")\n")
}

func (s *Solver) Close() {
	if s.cmd != nil && s.cmd.Process != nil {
		s.in.Close()
		s.cmd.Process.Kill()
		s.cmd.Wait()
	}
}

func (s *Solver) restart() {
	s.Close()
	s.start()
}

func (s *Solver) send(txt string) {
	if s.logf != nil {
		s.logf.WriteString(txt)
	}
	io.WriteString(s.in, txt)
}

// readLine with a wall-clock guard
func (s *Solver) readLine(limit time.Duration) (string, bool) {
	type res struct {
		l   string
		err error
	}
	ch := make(chan res, 1)
	go func() {
		l, err := s.out.ReadString('\n')
		ch <- res{l, err}
	}()
	select {
	case r := <-ch:
		if r.err != nil {
			return "", false
		}
		return strings.TrimRight(r.l, "\r\n"), true
	case <-time.After(limit):
		return "", false
	}
}

// sync makes the solver's assertion stack equal to pc.
func (s *Solver) sync(pc []*Term) {
	n := 0
	for n < len(pc) && n < len(s.stack) && pc[n] == s.stack[n] {
		n++
	}
	var sb strings.Builder
	if d := len(s.stack) - n; d > 0 {
		fmt.Fprintf(&sb, "(pop %d)\n", d)
		s.stack = s.stack[:n]
	}
	for _, t := range pc[n:] {
		s.em.Emit(&sb, t)
		fmt.Fprintf(&sb, "(push 1)\n(assert %s)\n", t.ref())
		s.stack = append(s.stack, t)
	}
	if sb.Len() > 0 {
		s.send(sb.String())
	}
}

// Check decides pc ∧ extra.  If wantModel, values of the listed terms are
// returned on sat (keyed by key strings).
func (s *Solver) Check(pc []*Term, extra *Term, want map[string]*Term) (Result, Model) {
	if extra != nil && extra.IsFalse() {
		return Unsat, nil
	}
	for _, p := range pc {
		if p.IsFalse() {
			return Unsat, nil
		}
	}
	t0 := time.Now()
	defer func() { s.Stats.Seconds += time.Since(t0).Seconds() }()
	s.Stats.Queries++
	if s.dead {
		s.restart()
	}
	s.sync(pc)
	var sb strings.Builder
	sb.WriteString("(push 1)\n")
	if extra != nil {
		s.em.Emit(&sb, extra)
		fmt.Fprintf(&sb, "(assert %s)\n", extra.ref())
	}
	mode := os.Getenv("GOSMT_MODE")
	hybrid := mode == "" || mode == "hybrid"
	switch {
	case mode == "inc":
		sb.WriteString("(check-sat)\n")
	case hybrid:
		fmt.Fprintf(&sb, "(set-option :timeout %d)\n(check-sat)\n", hybridFastMs)
	default:
		sb.WriteString(checkSatCmd)
	}
	s.send(sb.String())
	limit := time.Duration(s.timeout)*time.Millisecond + 10*time.Second
	line, ok := s.readLine(limit)
	for ok && (line == "" || strings.HasPrefix(line, "(warning") || strings.HasPrefix(line, "WARNING")) {
		line, ok = s.readLine(limit)
	}
	if !ok {
		s.dead = true
		s.Close()
		s.Stats.Unknown++
		return Unknown, nil
	}
	if hybrid && line == "unknown" {
		// the incremental core gave up quickly: run the tactic on the same stack
		s.Stats.Fallbacks++
		s.send(fmt.Sprintf("(set-option :timeout %d)\n%s", s.timeout, checkSatCmd))
		line, ok = s.readLine(limit)
		for ok && (line == "" || strings.HasPrefix(line, "(warning") || strings.HasPrefix(line, "WARNING")) {
			line, ok = s.readLine(limit)
		}
		if !ok {
			s.dead = true
			s.Close()
			s.Stats.Unknown++
			return Unknown, nil
		}
	}
	var r Result
	switch line {
	case "sat":
		r = Sat
		s.Stats.Sat++
	case "unsat":
		r = Unsat
		s.Stats.Unsat++
	case "unknown":
		r = Unknown
		s.Stats.Unknown++
	default:
		// (error ...) or anything else: inconclusive, and restart to be safe
		fmt.Fprintf(os.Stderr, "solver: unexpected answer %q\n", line)
		s.dead = true
		s.Close()
		s.Stats.Unknown++
		return Unknown, nil
	}
	if d := os.Getenv("GOSMT_SLOW"); d != "" && time.Since(t0) > 2*time.Second {
		os.MkdirAll(d, 0o755)
		os.WriteFile(fmt.Sprintf("%s/slow-%d-%s-%.0fs.smt2", d, time.Now().UnixNano(), r, time.Since(t0).Seconds()), []byte(DumpQuery(pc, extra, "", nil)), 0o644)
	}
	var m Model
	if r == Sat {
		m = Model{}
		if len(want) > 0 {
			m = s.getValues(want)
		}
	}
	s.send("(pop 1)\n")
	return r, m
}

func (s *Solver) getValues(want map[string]*Term) Model {
	m := Model{}
	keys := make([]string, 0, len(want))
	var sb strings.Builder
	for k, t := range want {
		if t.op == OpConst {
			m[k] = t.val
			continue
		}
		s.em.Emit(&sb, t)
		keys = append(keys, k)
	}
	if len(keys) == 0 {
		return m
	}
	// batches keep the answers parseable and bounded in size
	const batch = 64
	for i := 0; i < len(keys); i += batch {
		j := i + batch
		if j > len(keys) {
			j = len(keys)
		}
		sb.WriteString("(get-value (")
		for _, k := range keys[i:j] {
			sb.WriteString(want[k].ref())
			sb.WriteByte(' ')
		}
		sb.WriteString("))\n")
	}
	s.send(sb.String())
	for i := 0; i < len(keys); i += batch {
		j := i + batch
		if j > len(keys) {
			j = len(keys)
		}
		txt := s.readSexp()
		vals := parseValueList(txt)
		if len(vals) != j-i {
			// fall back: unparseable answer => no values for this batch
			continue
		}
		for n, k := range keys[i:j] {
			m[k] = vals[n]
		}
	}
	return m
}

// parseValueList parses "((t1 v1) (t2 v2) ...)" into the list of values.
func parseValueList(txt string) []uint64 {
	var out []uint64
	depth := 0
	i := 0
	n := len(txt)
	pairStart := -1
	for i < n {
		c := txt[i]
		switch c {
		case '|':
			i++
			for i < n && txt[i] != '|' {
				i++
			}
		case '(':
			depth++
			if depth == 2 {
				pairStart = i
			}
		case ')':
			if depth == 2 && pairStart >= 0 {
				if v, ok := parseValue("(" + txt[pairStart:i+1] + ")"); ok {
					out = append(out, v)
				} else {
					return nil
				}
				pairStart = -1
			}
			depth--
		}
		i++
	}
	return out
}

// readSexp reads one balanced s-expression (possibly spanning lines).
func (s *Solver) readSexp() string {
	var sb strings.Builder
	depth := 0
	started := false
	for {
		line, ok := s.readLine(30 * time.Second)
		if !ok {
			s.dead = true
			return sb.String()
		}
		sb.WriteString(line)
		sb.WriteByte(' ')
		inq := false
		for _, ch := range line {
			if ch == '|' {
				inq = !inq
			}
			if inq {
				continue
			}
			if ch == '(' {
				depth++
				started = true
			} else if ch == ')' {
				depth--
			}
		}
		if started && depth <= 0 {
			return sb.String()
		}
	}
}

// parseValue extracts the value from "((<term> <value>))".
func parseValue(txt string) (uint64, bool) {
	txt = strings.TrimSpace(txt)
	// last token before the closing "))"
	end := strings.LastIndex(txt, "))")
	if end < 0 {
		return 0, false
	}
	body := strings.TrimSpace(txt[:end])
	if strings.HasSuffix(body, ")") { // (_ bvN w)
		i := strings.LastIndex(body, "(_ bv")
		if i < 0 {
			return 0, false
		}
		f := strings.Fields(body[i+5:])
		v, err := strconv.ParseUint(f[0], 10, 64)
		return v, err == nil
	}
	i := strings.LastIndexAny(body, " \t")
	tok := body[i+1:]
	switch {
	case tok == "true":
		return 1, true
	case tok == "false":
		return 0, true
	case strings.HasPrefix(tok, "#x"):
		v, err := strconv.ParseUint(tok[2:], 16, 64)
		return v, err == nil
	case strings.HasPrefix(tok, "#b"):
		v, err := strconv.ParseUint(tok[2:], 2, 64)
		return v, err == nil
	}
	return 0, false
}

// ---------- standalone dumps + portfolio ----------

func DumpQuery(pc []*Term, extra *Term, logic string, getModel map[string]*Term) string {
	var sb strings.Builder
	if logic != "" {
		fmt.Fprintf(&sb, "(set-logic %s)\n", logic)
	}
	em := NewEmitter()
	for _, t := range pc {
		em.Emit(&sb, t)
		fmt.Fprintf(&sb, "(assert %s)\n", t.ref())
	}
	if extra != nil {
		em.Emit(&sb, extra)
		fmt.Fprintf(&sb, "(assert %s)\n", extra.ref())
	}
	sb.WriteString("(check-sat)\n")
	return sb.String()
}

type member struct {
	name string
	argv []string
	pre  string // text prepended to the query
}

func portfolioMembers(timeoutS int) []member {
	ts := strconv.Itoa(timeoutS)
	return []member{
		{"z3", []string{"z3", "-in", "-smt2", "-T:" + ts}, ""},
		{"cvc5-int", []string{"cvc5", "--lang=smt2", "--solve-bv-as-int=sum", "--tlimit=" + ts + "000"}, "(set-logic ALL)\n"},
		{"cvc5", []string{"cvc5", "--lang=smt2", "--tlimit=" + ts + "000"}, "(set-logic ALL)\n"},
		{"z3-new", []string{"z3-new", "-in", "-smt2", "-T:" + ts}, ""},
	}
}

var portfolioSem = make(chan struct{}, 6)
var portfolioRuns int64

func runMember(ctx context.Context, m member, query string) (Result, error) {
	cmd := exec.CommandContext(ctx, m.argv[0], m.argv[1:]...)
	cmd.Stdin = strings.NewReader(m.pre + query)
	out, err := cmd.Output()
	txt := string(out)
	if strings.Contains(txt, "(error") {
		return Unknown, fmt.Errorf("%s: %s", m.name, firstLine(txt))
	}
	for _, l := range strings.Split(txt, "\n") {
		switch strings.TrimSpace(l) {
		case "sat":
			return Sat, nil
		case "unsat":
			return Unsat, nil
		case "unknown", "timeout":
			return Unknown, nil
		}
	}
	return Unknown, err
}

func firstLine(s string) string {
	if i := strings.IndexByte(s, '\n'); i >= 0 {
		return s[:i]
	}
	return s
}

// Portfolio runs the query on all members in parallel; first definite answer
// wins.  If crossCheck, waits for all and fails on disagreement.
func Portfolio(query string, timeoutS int, crossCheck bool) (Result, string, error) {
	portfolioSem <- struct{}{}
	defer func() { <-portfolioSem }()
	atomic.AddInt64(&portfolioRuns, 1)
	ctx, cancel := context.WithTimeout(context.Background(), time.Duration(timeoutS+5)*time.Second)
	defer cancel()
	ms := portfolioMembers(timeoutS)
	type ans struct {
		r    Result
		name string
		err  error
	}
	ch := make(chan ans, len(ms))
	var wg sync.WaitGroup
	for _, m := range ms {
		wg.Add(1)
		go func(m member) {
			defer wg.Done()
			r, err := runMember(ctx, m, query)
			ch <- ans{r, m.name, err}
		}(m)
	}
	go func() { wg.Wait(); close(ch) }()
	final := Unknown
	winner := ""
	var agree []string
	for a := range ch {
		if a.r == Unknown {
			continue
		}
		if final == Unknown {
			final, winner = a.r, a.name
			agree = append(agree, a.name)
			if !crossCheck {
				cancel()
				break
			}
		} else if a.r != final {
			return Unknown, "", fmt.Errorf("solver disagreement: %s says %v, %s says %v", winner, final, a.name, a.r)
		} else {
			agree = append(agree, a.name)
		}
	}
	if crossCheck {
		winner = strings.Join(agree, "+")
	}
	return final, winner, nil
}
