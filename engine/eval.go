package main

// Concrete evaluation of terms under a model: used to answer "is cond
// feasible on this path?" without a solver call whenever the path's cached
// satisfying assignment already makes cond true.

type evalCtx struct {
	m    Model
	memo map[int]uint64
	bad  map[int]bool
}

// eval returns the value of t under m (missing variables read as 0, which is
// sound as long as the model is only used for paths whose every pc term has
// been checked to evaluate to true).  ok=false: not evaluable (arrays, UFs).
func evalTerm(t *Term, m Model) (uint64, bool) {
	ec := &evalCtx{m: m, memo: map[int]uint64{}, bad: map[int]bool{}}
	return ec.eval(t)
}

func (ec *evalCtx) eval(t *Term) (uint64, bool) {
	if t.op == OpConst {
		return t.val, true
	}
	if v, ok := ec.memo[t.id]; ok {
		return v, true
	}
	if ec.bad[t.id] {
		return 0, false
	}
	v, ok := ec.eval1(t)
	if ok {
		ec.memo[t.id] = v
	} else {
		ec.bad[t.id] = true
	}
	return v, ok
}

func b2u(b bool) uint64 {
	if b {
		return 1
	}
	return 0
}

func (ec *evalCtx) eval1(t *Term) (uint64, bool) {
	switch t.op {
	case OpVar:
		if t.sort.IsArray() {
			return 0, false
		}
		return ec.m[t.name] & maskOrBool(t.sort), true
	case OpUF, OpSelect, OpStore, OpConstArr:
		return 0, false
	case OpIte:
		c, ok := ec.eval(t.args[0])
		if !ok {
			return 0, false
		}
		if t.sort.IsArray() {
			return 0, false
		}
		if c == 1 {
			return ec.eval(t.args[1])
		}
		return ec.eval(t.args[2])
	case OpAnd:
		a, ok := ec.eval(t.args[0])
		if ok && a == 0 {
			return 0, true
		}
		b, ok2 := ec.eval(t.args[1])
		if ok2 && b == 0 {
			return 0, true
		}
		return a & b, ok && ok2
	case OpOr:
		a, ok := ec.eval(t.args[0])
		if ok && a == 1 {
			return 1, true
		}
		b, ok2 := ec.eval(t.args[1])
		if ok2 && b == 1 {
			return 1, true
		}
		return a | b, ok && ok2
	}
	var a [3]uint64
	for i, x := range t.args {
		if x.sort.IsArray() {
			return 0, false
		}
		v, ok := ec.eval(x)
		if !ok {
			return 0, false
		}
		if i < 3 {
			a[i] = v
		}
	}
	w := t.sort.w
	switch t.op {
	case OpNot:
		return a[0] ^ 1, true
	case OpEq:
		return b2u(a[0] == a[1]), true
	case OpAdd, OpSub, OpMul, OpUDiv, OpURem, OpSDiv, OpSRem, OpShl, OpLShr, OpAShr, OpBAnd, OpBOr, OpBXor:
		v, ok := foldBin(t.op, w, a[0], a[1])
		return v, ok
	case OpBNot:
		return ^a[0] & mask(w), true
	case OpNeg:
		return -a[0] & mask(w), true
	case OpUlt:
		return b2u(a[0] < a[1]), true
	case OpUle:
		return b2u(a[0] <= a[1]), true
	case OpSlt:
		aw := t.args[0].sort.w
		return b2u(sext64(a[0], aw) < sext64(a[1], aw)), true
	case OpSle:
		aw := t.args[0].sort.w
		return b2u(sext64(a[0], aw) <= sext64(a[1], aw)), true
	case OpExtract:
		return (a[0] >> uint(t.p2)) & mask(w), true
	case OpConcat:
		return (a[0]<<uint(t.args[1].sort.w) | a[1]) & mask(w), true
	case OpZext:
		return a[0], true
	case OpSext:
		return uint64(sext64(a[0], t.args[0].sort.w)) & mask(w), true
	}
	return 0, false
}

func maskOrBool(s Sort) uint64 {
	if s.IsBool() {
		return 1
	}
	return mask(s.w)
}
