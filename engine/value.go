package main

// Symbolic values and the heap.  All aggregate values are immutable (updates
// copy the path), so forking a state shares everything.

import (
	"os"
	"fmt"
	"go/types"

	"golang.org/x/tools/go/ssa"
)

type Value interface{}

// scalar: *Term

type Sel struct {
	k   int
	sym *Term // non-nil: symbolic array index (64-bit), k ignored
}

type Ptr struct {
	obj  int // 0 = nil
	path []Sel
}

func (p Ptr) IsNil() bool { return p.obj == 0 }

func (p Ptr) extend(s Sel) Ptr {
	np := make([]Sel, len(p.path)+1)
	copy(np, p.path)
	np[len(p.path)] = s
	return Ptr{p.obj, np}
}

type SliceV struct {
	base Ptr // pointer to the backing array value (ArrayV) ; nil slice: base.obj==0
	off  int
	len  *Term // 64-bit
	cap  int
}

type StrV struct {
	b []*Term // 8-bit each; concrete length
}

type StructV struct {
	f []Value
}

type ArrayV struct {
	e []Value
}

type IfaceV struct {
	t types.Type // nil => nil interface
	v Value
}

type FuncV struct {
	fn    *ssa.Function // nil => nil func
	binds []Value
	// bound method closure / stub
	intrinsic string
}

type MapV struct {
	obj int // 0 = nil map; heap[obj] is *MapObj
}

type MapEntry struct {
	k, v Value
}

type MapObj struct {
	entries []MapEntry // insertion order; keys pairwise distinct under the path condition
}

type ChanV struct {
	obj int
}

type ChanObj struct {
	q      []Value
	cap    int
	closed bool
}

type TupleV struct {
	v []Value
}

type OpaqueV struct { // floats and other uninterpreted things
	what string
}

// GhostArr is the heap object behind v.GhostU16Map etc.
type GhostArr struct {
	name string
	arr  *Term
	iw   int
	w    int
}

type RangeIter struct {
	str   *StrV
	pos   int
	mobj  int
	keys  []MapEntry
	isMap bool
}

// ---------- types ----------

func intWidth(b *types.Basic) (int, bool) {
	switch b.Kind() {
	case types.Int8:
		return 8, true
	case types.Uint8:
		return 8, false
	case types.Int16:
		return 16, true
	case types.Uint16:
		return 16, false
	case types.Int32:
		return 32, true
	case types.Uint32:
		return 32, false
	case types.Int64, types.Int, types.UntypedInt, types.UntypedRune:
		return 64, true
	case types.Uint64, types.Uint, types.Uintptr:
		return 64, false
	}
	return 0, false
}

func isInt(t types.Type) (w int, signed bool, ok bool) {
	if b, isb := t.Underlying().(*types.Basic); isb {
		if b.Info()&types.IsInteger != 0 {
			w, signed = intWidth(b)
			if b.Kind() == types.UntypedRune {
				w = 32
			}
			return w, signed, w != 0
		}
	}
	return 0, false, false
}

func isBoolT(t types.Type) bool {
	b, ok := t.Underlying().(*types.Basic)
	return ok && b.Info()&types.IsBoolean != 0
}
func isStringT(t types.Type) bool {
	b, ok := t.Underlying().(*types.Basic)
	return ok && b.Info()&types.IsString != 0
}
func isFloatT(t types.Type) bool {
	b, ok := t.Underlying().(*types.Basic)
	return ok && b.Info()&(types.IsFloat|types.IsComplex) != 0
}

func (e *Exec) zero(t types.Type) Value {
	switch u := t.Underlying().(type) {
	case *types.Basic:
		switch {
		case u.Info()&types.IsBoolean != 0:
			return e.c.False
		case u.Info()&types.IsInteger != 0:
			w, _ := intWidth(u)
			return e.c.Const(w, 0)
		case u.Info()&types.IsString != 0:
			return &StrV{}
		case u.Info()&(types.IsFloat|types.IsComplex) != 0:
			return OpaqueV{"float0"}
		case u.Kind() == types.UnsafePointer:
			return Ptr{}
		case u.Kind() == types.UntypedNil:
			return Ptr{}
		}
	case *types.Pointer:
		return Ptr{}
	case *types.Slice:
		return SliceV{len: e.c.Const(64, 0)}
	case *types.Struct:
		if z, ok := e.zeroCache[t]; ok {
			return z
		}
		f := make([]Value, u.NumFields())
		for i := range f {
			f[i] = e.zero(u.Field(i).Type())
		}
		z := &StructV{f}
		e.zeroCache[t] = z
		return z
	case *types.Array:
		if z, ok := e.zeroCache[t]; ok {
			return z
		}
		ev := e.zero(u.Elem())
		if u.Len() > 1<<16 && os.Getenv("GOSMT_DEBUG") != "" {
			fmt.Fprintf(os.Stderr, "zero: big array %v at %s\n", t, e.posStr())
		}
		el := make([]Value, u.Len())
		for i := range el {
			el[i] = ev
		}
		z := &ArrayV{el}
		e.zeroCache[t] = z
		return z
	case *types.Map:
		return MapV{}
	case *types.Chan:
		return ChanV{}
	case *types.Interface:
		return IfaceV{}
	case *types.Signature:
		return FuncV{}
	case *types.Tuple:
		tv := make([]Value, u.Len())
		for i := range tv {
			tv[i] = e.zero(u.At(i).Type())
		}
		return TupleV{tv}
	}
	panic(e.abort("zero: unsupported type %v", t))
}

// fresh symbolic value of a type (havoc); pointers/maps become nil-or-opaque per policy
func (e *Exec) havoc(t types.Type, hint string) Value {
	switch u := t.Underlying().(type) {
	case *types.Basic:
		switch {
		case u.Info()&types.IsBoolean != 0:
			return e.c.Fresh(hint, BoolSort)
		case u.Info()&types.IsInteger != 0:
			w, _ := intWidth(u)
			return e.c.Fresh(hint, BV(w))
		case u.Info()&(types.IsFloat|types.IsComplex) != 0:
			return OpaqueV{hint}
		}
	case *types.Struct:
		f := make([]Value, u.NumFields())
		for i := range f {
			f[i] = e.havoc(u.Field(i).Type(), hint+"."+u.Field(i).Name())
		}
		return &StructV{f}
	case *types.Array:
		el := make([]Value, u.Len())
		for i := range el {
			el[i] = e.havoc(u.Elem(), fmt.Sprintf("%s[%d]", hint, i))
		}
		return &ArrayV{el}
	case *types.Tuple:
		tv := make([]Value, u.Len())
		for i := range tv {
			tv[i] = e.havoc(u.At(i).Type(), fmt.Sprintf("%s.%d", hint, i))
		}
		return TupleV{tv}
	}
	return e.zero(t)
}

// ---------- merge (ite over values) ----------

type unmergeable struct{ why string }

// mergeV returns ite(cond, a, b) or ok=false if the shapes differ.
func (e *Exec) mergeV(cond *Term, a, b Value) (Value, bool) {
	if cond.IsTrue() {
		return a, true
	}
	if cond.IsFalse() {
		return b, true
	}
	switch x := a.(type) {
	case *Term:
		y, ok := b.(*Term)
		if !ok || x.sort != y.sort {
			return nil, false
		}
		return e.c.Ite(cond, x, y), true
	case *StructV:
		y, ok := b.(*StructV)
		if !ok || len(x.f) != len(y.f) {
			return nil, false
		}
		if x == y {
			return x, true
		}
		f := make([]Value, len(x.f))
		for i := range f {
			m, ok := e.mergeV(cond, x.f[i], y.f[i])
			if !ok {
				return nil, false
			}
			f[i] = m
		}
		return &StructV{f}, true
	case *ArrayV:
		y, ok := b.(*ArrayV)
		if !ok || len(x.e) != len(y.e) {
			return nil, false
		}
		if x == y {
			return x, true
		}
		el := make([]Value, len(x.e))
		for i := range el {
			if x.e[i] == y.e[i] {
				el[i] = x.e[i]
				continue
			}
			m, ok := e.mergeV(cond, x.e[i], y.e[i])
			if !ok {
				return nil, false
			}
			el[i] = m
		}
		return &ArrayV{el}, true
	case *StrV:
		y, ok := b.(*StrV)
		if !ok || len(x.b) != len(y.b) {
			return nil, false
		}
		bs := make([]*Term, len(x.b))
		for i := range bs {
			bs[i] = e.c.Ite(cond, x.b[i], y.b[i])
		}
		return &StrV{bs}, true
	case Ptr:
		y, ok := b.(Ptr)
		if !ok || !ptrIdentical(x, y) {
			return nil, false
		}
		return x, true
	case SliceV:
		y, ok := b.(SliceV)
		if !ok || !ptrIdentical(x.base, y.base) || x.off != y.off || x.cap != y.cap {
			return nil, false
		}
		return SliceV{x.base, x.off, e.c.Ite(cond, x.len, y.len), x.cap}, true
	case IfaceV:
		y, ok := b.(IfaceV)
		if !ok {
			return nil, false
		}
		if x.t == nil && y.t == nil {
			return x, true
		}
		if x.t == nil || y.t == nil || !types.Identical(x.t, y.t) {
			return nil, false
		}
		m, ok := e.mergeV(cond, x.v, y.v)
		if !ok {
			return nil, false
		}
		return IfaceV{x.t, m}, true
	case MapV:
		y, ok := b.(MapV)
		if ok && x.obj == y.obj {
			return x, true
		}
		return nil, false
	case ChanV:
		y, ok := b.(ChanV)
		if ok && x.obj == y.obj {
			return x, true
		}
		return nil, false
	case FuncV:
		y, ok := b.(FuncV)
		if ok && x.fn == y.fn && x.intrinsic == y.intrinsic && len(x.binds) == len(y.binds) {
			for i := range x.binds {
				if m, ok := e.mergeV(cond, x.binds[i], y.binds[i]); !ok || !sameValue(m, x.binds[i]) {
					return nil, false
				}
			}
			return x, true
		}
		return nil, false
	case TupleV:
		y, ok := b.(TupleV)
		if !ok || len(x.v) != len(y.v) {
			return nil, false
		}
		tv := make([]Value, len(x.v))
		for i := range tv {
			m, ok := e.mergeV(cond, x.v[i], y.v[i])
			if !ok {
				return nil, false
			}
			tv[i] = m
		}
		return TupleV{tv}, true
	case OpaqueV:
		return x, true
	}
	return nil, false
}

func sameValue(a, b Value) bool {
	switch x := a.(type) {
	case *Term:
		y, ok := b.(*Term)
		return ok && x == y
	case Ptr:
		y, ok := b.(Ptr)
		return ok && ptrIdentical(x, y)
	case *StructV:
		y, ok := b.(*StructV)
		return ok && x == y
	case *ArrayV:
		y, ok := b.(*ArrayV)
		return ok && x == y
	}
	return false
}

func ptrIdentical(a, b Ptr) bool {
	if a.obj != b.obj || len(a.path) != len(b.path) {
		return false
	}
	for i := range a.path {
		if a.path[i].sym != b.path[i].sym || (a.path[i].sym == nil && a.path[i].k != b.path[i].k) {
			return false
		}
	}
	return true
}

// ---------- heap ----------

func (e *Exec) alloc(st *State, v Value) Ptr {
	st.nextObj++
	id := st.nextObj
	st.heap[id] = v
	return Ptr{obj: id}
}

func (e *Exec) loadPath(st *State, v Value, path []Sel) Value {
	for pi, s := range path {
		switch x := v.(type) {
		case *StructV:
			v = x.f[s.k]
		case *ArrayV:
			if s.sym == nil {
				if s.k < 0 || s.k >= len(x.e) {
					panic(e.abort("internal: load index %d out of range %d", s.k, len(x.e)))
				}
				v = x.e[s.k]
			} else {
				// ite chain over all elements, each loaded through the rest of the path
				rest := path[pi+1:]
				if os.Getenv("GOSMT_SYMLOAD") != "" && len(x.e) > 16 {
					fmt.Fprintf(os.Stderr, "symload len=%d at %s idx=%s\n", len(x.e), e.posStr(), s.sym.String())
				}
				var acc Value
				for i := len(x.e) - 1; i >= 0; i-- {
					ev := e.loadPath(st, x.e[i], rest)
					if acc == nil {
						acc = ev
						continue
					}
					m, ok := e.mergeV(e.c.Eq(s.sym, e.c.Const(64, uint64(i))), ev, acc)
					if !ok {
						// fall back: concretize the index
						k := int(e.concretize(st, s.sym, "array index"))
						return e.loadPath(st, x.e[k], rest)
					}
					acc = m
				}
				if acc == nil {
					panic(e.abort("load from empty array with symbolic index"))
				}
				return acc
			}
		default:
			panic(e.abort("internal: loadPath through %T", v))
		}
	}
	return v
}

func (e *Exec) load(st *State, p Ptr) Value {
	if p.IsNil() {
		panic(e.abort("internal: load through nil pointer (missing nil check)"))
	}
	root, ok := st.heap[p.obj]
	if !ok {
		panic(e.abort("internal: dangling object %d", p.obj))
	}
	return e.loadPath(st, root, p.path)
}

func (e *Exec) storePath(st *State, v Value, path []Sel, nv Value) Value {
	if len(path) == 0 {
		return nv
	}
	s := path[0]
	switch x := v.(type) {
	case *StructV:
		f := make([]Value, len(x.f))
		copy(f, x.f)
		f[s.k] = e.storePath(st, x.f[s.k], path[1:], nv)
		return &StructV{f}
	case *ArrayV:
		el := make([]Value, len(x.e))
		copy(el, x.e)
		if s.sym == nil {
			el[s.k] = e.storePath(st, x.e[s.k], path[1:], nv)
			return &ArrayV{el}
		}
		for i := range el {
			upd := e.storePath(st, x.e[i], path[1:], nv)
			m, ok := e.mergeV(e.c.Eq(s.sym, e.c.Const(64, uint64(i))), upd, x.e[i])
			if !ok {
				k := int(e.concretize(st, s.sym, "array index (store)"))
				copy(el, x.e)
				el[k] = e.storePath(st, x.e[k], path[1:], nv)
				return &ArrayV{el}
			}
			el[i] = m
		}
		return &ArrayV{el}
	}
	panic(e.abort("internal: storePath through %T", v))
}

func (e *Exec) store(st *State, p Ptr, nv Value) {
	if p.IsNil() {
		panic(e.abort("internal: store through nil pointer (missing nil check)"))
	}
	root := st.heap[p.obj]
	st.heap[p.obj] = e.storePath(st, root, p.path, nv)
}

// ---------- slices ----------

// sliceElemPtr returns a pointer to element i (term, 64-bit) of s; bounds must have been checked.
func (e *Exec) sliceElemPtr(s SliceV, i *Term) Ptr {
	if i.IsConst() {
		return s.base.extend(Sel{k: s.off + int(i.val)})
	}
	idx := i
	if s.off != 0 {
		idx = e.c.Bin(OpAdd, i, e.c.Const(64, uint64(s.off)))
	}
	return s.base.extend(Sel{sym: idx})
}

func (e *Exec) newSlice(st *State, elem types.Type, n, capn int) SliceV {
	ev := e.zero(elem)
	el := make([]Value, capn)
	for i := range el {
		el[i] = ev
	}
	p := e.alloc(st, &ArrayV{el})
	return SliceV{base: p, off: 0, len: e.c.Const(64, uint64(n)), cap: capn}
}

func (e *Exec) strConst(s string) *StrV {
	b := make([]*Term, len(s))
	for i := 0; i < len(s); i++ {
		b[i] = e.c.Const(8, uint64(s[i]))
	}
	return &StrV{b}
}

// concrete string if all bytes are constants
func strConcrete(s *StrV) (string, bool) {
	bs := make([]byte, len(s.b))
	for i, t := range s.b {
		if !t.IsConst() {
			return "", false
		}
		bs[i] = byte(t.val)
	}
	return string(bs), true
}

// havocInput is havoc whose fresh variables are registered as model inputs.
func (e *Exec) havocInput(t types.Type, hint string) Value {
	before := e.c.fresh
	v := e.havoc(t, hint)
	_ = before
	e.registerTerms(v)
	return v
}

func (e *Exec) registerTerms(v Value) {
	switch x := v.(type) {
	case *Term:
		if x.op == OpVar {
			e.inputs[x.name] = x
		}
	case *StructV:
		for _, f := range x.f {
			e.registerTerms(f)
		}
	case *ArrayV:
		for _, f := range x.e {
			e.registerTerms(f)
		}
	case TupleV:
		for _, f := range x.v {
			e.registerTerms(f)
		}
	}
}
