package main

import (
	"encoding/json"
	"fmt"
	"os"
	"path/filepath"
	"sort"
	"strings"
	"time"

	"golang.org/x/tools/go/ssa"
)

func (e *Exec) saveQuery(q, tag string) {
	dir := filepath.Join(verifDir, "evidence", "smt", e.ob.Name)
	os.MkdirAll(dir, 0o755)
	os.WriteFile(filepath.Join(dir, fmt.Sprintf("%s-%d.smt2", tag, time.Now().UnixNano())), []byte(q), 0o644)
}

// modelOneShot obtains a model with a fresh, untimed-out solver process.
func (e *Exec) modelOneShot(pc []*Term, extra *Term) Model {
	s := NewSolver(e.cfg.VerdictTimeoutS * 1000)
	defer s.Close()
	r, m := s.Check(pc, extra, e.wantModel())
	if r != Sat {
		return nil
	}
	return m
}

// reachLabels collects the labels of v.Reach calls in the harness and the
// verification helpers it calls.
func reachLabels(fn *ssa.Function) []string {
	seen := map[*ssa.Function]bool{}
	labels := map[string]bool{}
	var visit func(f *ssa.Function)
	visit = func(f *ssa.Function) {
		if f == nil || seen[f] || len(f.Blocks) == 0 {
			return
		}
		seen[f] = true
		for _, b := range f.Blocks {
			for _, in := range b.Instrs {
				c, ok := in.(ssa.CallInstruction)
				if !ok {
					continue
				}
				callee := c.Common().StaticCallee()
				if callee == nil {
					continue
				}
				if callee.String() == vpkg+"Reach" {
					if k, ok := c.Common().Args[0].(*ssa.Const); ok {
						labels[strings.Trim(k.Value.ExactString(), "\"")] = true
					}
					continue
				}
				if callee.Pkg == f.Pkg {
					file := filepath.Base(f.Prog.Fset.Position(callee.Pos()).Filename)
					if strings.HasPrefix(file, "zz_verif") {
						visit(callee)
					}
				}
			}
		}
		for _, af := range f.AnonFuncs {
			visit(af)
		}
	}
	visit(fn)
	var out []string
	for k := range labels {
		out = append(out, k)
	}
	sort.Strings(out)
	return out
}

type obSummary struct {
	Name         string         `json:"obligation"`
	Harness      string         `json:"harness"`
	Claim        string         `json:"claim,omitempty"`
	Bounds       string         `json:"bounds,omitempty"`
	Params       map[string]int `json:"params,omitempty"`
	Status       string         `json:"status"`
	Items        int            `json:"work_items"`
	Paths        int            `json:"paths"`
	DeadPaths    int            `json:"dead_paths"`
	Forks        int            `json:"forks"`
	Steps        int            `json:"ssa_instructions_executed"`
	Asserts      int            `json:"assertions_checked"`
	Trivial      int            `json:"assertions_folded_to_true"`
	Verdicts     int            `json:"verdict_queries"`
	CritChecks   int            `json:"critical_section_checks,omitempty"`
	Queries      int            `json:"solver_queries"`
	Sat          int            `json:"sat"`
	Unsat        int            `json:"unsat"`
	Unknown      int            `json:"unknown"`
	SolverS      float64        `json:"solver_seconds"`
	Portfolio    int            `json:"portfolio_runs"`
	CrossOK      int            `json:"cross_checks_agreeing"`
	Winners      map[string]int `json:"deciding_solver"`
	Merged       int            `json:"pure_calls_summarised"`
	IfConv       int            `json:"diamonds_if_converted"`
	StateMerges  int            `json:"state_merges"`
	Reached      []string       `json:"reach_labels_hit"`
	Missing      []string       `json:"reach_labels_missing,omitempty"`
	Notes        []string       `json:"notes,omitempty"`
	Inconclusive []string       `json:"inconclusive,omitempty"`
	Failures     []string       `json:"failures,omitempty"`
	Seconds      float64        `json:"seconds"`
}

func report(l *Loaded, cfg *Config, spec *Spec, obs []*Obligation, results map[string]*ObResult, loadS float64, t0 time.Time) int {
	known := loadKnown()
	prop := spec.Property
	violations, inconclusives, knownHits := 0, 0, 0
	var sums []obSummary
	funcs := map[string]int{}
	notes := map[string]int{}
	lockOrder := map[string]bool{}
	totalQ, totalV, totalPaths, nontrivial, totalAsserts, discharged := 0, 0, 0, 0, 0, 0
	solverS := 0.0
	replayN := 0
	var violationLines []string
	for _, o := range obs {
		r := results[o.Name]
		s := obSummary{Name: o.Name, Harness: o.Harness, Claim: o.Claim, Bounds: o.Bounds, Params: o.params, Items: r.Items, Paths: r.Paths, DeadPaths: r.Dead,
			Forks: r.Forks, Steps: r.Steps, Asserts: r.Asserts, Trivial: r.AssertsTrivial, Verdicts: r.Verdicts, Queries: r.Solver.Queries,
			Sat: r.Solver.Sat, Unsat: r.Solver.Unsat, Unknown: r.Solver.Unknown, SolverS: r.Solver.Seconds, Portfolio: r.Solver.Portfolio,
			CrossOK: r.Solver.CrossOK, Winners: r.Solver.Winners, Merged: r.Merged, IfConv: r.IfConverted, StateMerges: r.StateMerges, Seconds: r.Seconds}
		status := "discharged"
		for k := range r.Reached {
			s.Reached = append(s.Reached, k)
		}
		sort.Strings(s.Reached)
		want := o.Reach
		if len(want) == 0 {
			want = reachLabels(o.fn)
		}
		if o.Expect == "violated" {
			want = nil
		}
		for _, w := range want {
			if !r.Reached[w] {
				s.Missing = append(s.Missing, w)
			}
		}
		for k, v := range r.Notes {
			s.Notes = append(s.Notes, fmt.Sprintf("%s (x%d)", k, v))
			notes[k] += v
		}
		sort.Strings(s.Notes)
		for k := range r.LockOrder {
			lockOrder[k] = true
		}
		if r.Aborted != "" {
			status = "inconclusive"
			s.Inconclusive = append(s.Inconclusive, "aborted: "+r.Aborted)
			fmt.Printf("INCONCLUSIVE property=%s obligation=%s reason=%s\n", prop, o.Name, r.Aborted)
		}
		for _, ic := range r.Inconclusive {
			status = "inconclusive"
			s.Inconclusive = append(s.Inconclusive, ic)
			fmt.Printf("INCONCLUSIVE property=%s obligation=%s reason=%s\n", prop, o.Name, ic)
		}
		if len(s.Missing) > 0 && r.Aborted == "" {
			status = "inconclusive"
			s.Inconclusive = append(s.Inconclusive, "vacuous: reach labels not hit: "+strings.Join(s.Missing, ","))
			fmt.Printf("INCONCLUSIVE property=%s obligation=%s reason=vacuous, labels not reached: %s\n", prop, o.Name, strings.Join(s.Missing, ","))
		}
		if len(o.Critical) > 0 {
			s.CritChecks = r.CritChecks
			if r.CritChecks == 0 && len(r.Failures) == 0 && r.Aborted == "" {
				status = "inconclusive"
				s.Inconclusive = append(s.Inconclusive, "vacuous: no guarded call was executed inside a critical-section operation")
				fmt.Printf("INCONCLUSIVE property=%s obligation=%s reason=vacuous, no guarded call inside the listed operations\n", prop, o.Name)
			}
		}
		if o.Expect == "violated" {
			// sensitivity twin: it must be violated, and natively too
			okTwin := false
			for _, f := range r.Failures {
				if f.Model == nil {
					continue
				}
				replayN++
				path := writeReplay(prop, o, f, replayN)
				if cfg.NoReplay {
					okTwin = true
					continue
				}
				if res, _, err := nativeReplay(l, path); err == nil && reproduced(f, res) {
					okTwin = true
				}
			}
			if okTwin {
				s.Status = "discharged (twin violated as required)"
				discharged++
			} else {
				s.Status = "inconclusive"
				inconclusives++
				fmt.Printf("INCONCLUSIVE property=%s obligation=%s reason=the sensitivity twin was NOT reported violated: the engine has lost sensitivity\n", prop, o.Name)
			}
			sums = append(sums, s)
			totalQ += r.Solver.Queries
			totalPaths += r.Paths
			nontrivial += r.Paths
			fmt.Printf("  %-28s %-13s items=%d paths=%d\n", o.Name, s.Status, r.Items, r.Paths)
			continue
		}
		for _, f := range r.Failures {
			desc := fmt.Sprintf("%s: %s at %s", f.Kind, f.Msg, f.Pos)
			if f.Kind == "race" {
				// identified on a feasible symbolic path by the lockset discipline; the replay file
				// records the inputs that drive execution to the access (there is no native oracle
				// for a race short of the race detector with a second goroutine)
				replayN++
				path := writeReplay(prop, o, f, replayN)
				isKnown := false
				for _, k := range known {
					if k.matches(prop, o.Name, f) {
						isKnown = true
						knownHits++
						fmt.Printf("KNOWN-FINDING: property=%s %s [obligation=%s %s]\n", prop, k.Text, o.Name, desc)
						s.Failures = append(s.Failures, desc+" [known finding: "+k.Text+"] replay="+path)
						break
					}
				}
				if isKnown {
					if status == "discharged" {
						status = "known-finding"
					}
					continue
				}
				status = "violated"
				violations++
				s.Failures = append(s.Failures, desc+" [lockset] replay="+path)
				violationLines = append(violationLines, fmt.Sprintf("VIOLATION property=%s replay=%s", prop, path))
				fmt.Printf("  failed: obligation=%s %s (lockset; call chain: %s)\n", o.Name, desc, strings.Join(f.Stack, " <- "))
				continue
			}
			if f.Kind == "deadlock" {
				status = "violated"
				violations++
				s.Failures = append(s.Failures, desc+" [static]")
				violationLines = append(violationLines, fmt.Sprintf("VIOLATION property=%s replay=%s", prop, "none(static-path:"+f.Pos+")"))
				continue
			}
			if f.Model == nil {
				status = "inconclusive"
				s.Inconclusive = append(s.Inconclusive, "no model for "+desc)
				fmt.Printf("INCONCLUSIVE property=%s obligation=%s reason=no model for %s\n", prop, o.Name, desc)
				continue
			}
			replayN++
			path := writeReplay(prop, o, f, replayN)
			res := "skipped"
			if !cfg.NoReplay {
				var txt string
				var err error
				res, txt, err = nativeReplay(l, path)
				if err != nil {
					status = "inconclusive"
					s.Inconclusive = append(s.Inconclusive, "replay failed to run for "+desc+": "+err.Error())
					fmt.Printf("INCONCLUSIVE property=%s obligation=%s reason=replay did not run (%v) for %s\n", prop, o.Name, err, desc)
					os.WriteFile(path+".log", []byte(txt), 0o644)
					continue
				}
				if !reproduced(f, res) {
					status = "inconclusive"
					s.Inconclusive = append(s.Inconclusive, fmt.Sprintf("counterexample did not reproduce natively (%s) for %s: replay=%s", res, desc, path))
					fmt.Printf("INCONCLUSIVE property=%s obligation=%s reason=counterexample for [%s] did not reproduce natively (native result: %s) replay=%s\n", prop, o.Name, desc, res, path)
					continue
				}
			}
			isKnown := false
			for _, k := range known {
				if k.matches(prop, o.Name, f) {
					isKnown = true
					knownHits++
					fmt.Printf("KNOWN-FINDING: property=%s %s [obligation=%s %s]\n", prop, k.Text, o.Name, desc)
					s.Failures = append(s.Failures, desc+" [known finding: "+k.Text+"] replay="+path)
					break
				}
			}
			if isKnown {
				if status == "discharged" {
					status = "known-finding"
				}
				continue
			}
			status = "violated"
			violations++
			s.Failures = append(s.Failures, desc+" replay="+path+" native="+res)
			violationLines = append(violationLines, fmt.Sprintf("VIOLATION property=%s replay=%s", prop, path))
			fmt.Printf("  failed: obligation=%s %s (native: %s)\n", o.Name, desc, res)
		}
		if status == "inconclusive" {
			inconclusives++
		}
		s.Status = status
		sums = append(sums, s)
		for k, v := range r.Funcs {
			funcs[k] += v
		}
		totalQ += r.Solver.Queries
		totalV += r.Verdicts
		totalPaths += r.Paths
		nontrivial += r.Paths
		totalAsserts += r.Asserts
		if status == "discharged" || status == "known-finding" {
			discharged++
		}
		solverS += r.Solver.Seconds
		fmt.Printf("  %-28s %-13s items=%d paths=%d forks=%d asserts=%d verdicts=%d queries=%d solver=%.1fs wall=%.1fs\n", o.Name, status, r.Items, r.Paths, r.Forks, r.Asserts, r.Verdicts, r.Solver.Queries, r.Solver.Seconds, r.Seconds)
	}
	// lock-order graph over all obligations of this property: a cycle is a potential deadlock
	if cyc := lockCycle(lockOrder); cyc != "" {
		f := Failure{Kind: "deadlock", Msg: "lock-order cycle " + cyc, Pos: "lock-order graph"}
		isKnown := false
		for _, k := range known {
			if k.matches(prop, "lock-order", f) {
				isKnown = true
				knownHits++
				fmt.Printf("KNOWN-FINDING: property=%s %s [lock-order cycle %s]\n", prop, k.Text, cyc)
			}
		}
		if !isKnown {
			violations++
			dir := filepath.Join(verifDir, "evidence", "replay", prop)
			os.MkdirAll(dir, 0o755)
			path := filepath.Join(dir, "lock-order-cycle.json")
			var edges []string
			for k := range lockOrder {
				edges = append(edges, k)
			}
			sort.Strings(edges)
			b, _ := json.MarshalIndent(map[string]interface{}{"property": prop, "kind": "deadlock", "cycle": cyc, "edges": edges,
				"explanation": "each edge A -> B was observed on a feasible symbolic path: a goroutine acquired B while holding A; two goroutines taking the edges of the cycle concurrently block each other forever"}, "", " ")
			os.WriteFile(path, b, 0o644)
			violationLines = append(violationLines, fmt.Sprintf("VIOLATION property=%s replay=%s", prop, path))
			fmt.Printf("  failed: lock-order cycle (potential deadlock): %s\n", cyc)
		}
	}
	for _, vl := range violationLines {
		fmt.Println(vl)
	}
	// evidence
	type fnCov struct {
		Func   string `json:"func"`
		Instrs int    `json:"instructions_executed"`
	}
	var fl []fnCov
	for k, v := range funcs {
		if strings.Contains(k, "zzverif") {
			continue
		}
		fl = append(fl, fnCov{k, v})
	}
	sort.Slice(fl, func(i, j int) bool { return fl[i].Instrs > fl[j].Instrs })
	if len(fl) > 80 {
		fl = fl[:80]
	}
	var noteList []string
	for _, k := range sortedKeys(notes) {
		noteList = append(noteList, fmt.Sprintf("%s (x%d)", k, notes[k]))
	}
	var lo []string
	for k := range lockOrder {
		lo = append(lo, k)
	}
	sort.Strings(lo)
	samples := make([]interface{}, 0, len(sums))
	for _, s := range sums {
		samples = append(samples, s)
	}
	wall := time.Since(t0).Seconds()
	ev := map[string]interface{}{
		"property_id": prop,
		"tier":        cfg.Tier,
		"seed":        cfg.Seed,
		"level":       "other",
		"coverage": map[string]interface{}{
			"explanation": "bounded symbolic verification: the harness functions (injected by overlay into the real packages) and every function of /repo and its dependencies they call are executed symbolically from go/ssa built from /repo's current working tree; inputs/pre-states are SMT bit-vector variables, each assertion and each implicit Go panic is decided by z3/cvc5 for ALL values within the stated bounds; sat answers are replayed natively against the real build before being reported",
			"obligations":         len(sums),
			"discharged":          discharged,
			"evaluations":         totalQ,
			"distinct_nontrivial": nontrivial,
			"rule":                "evaluations = solver queries (feasibility + verdict); distinct_nontrivial = completed symbolic paths (each a distinct path condition) over all obligations; an obligation is discharged when every assertion and panic check on every path is unsat, all reach labels are satisfiable, no loop bound/unmodelled call/solver-unknown occurred",
			"samples":             samples,
			"checker_cmd":         fmt.Sprintf("./check %s %s", prop, cfg.Tier),
			"trusted_base":        []string{"go/packages + go/ssa (x/tools v0.29.0) translation of the source", "gosmt executor (/verif/engine) incl. its models of sync, math/bits, bytealg, fmt/log no-ops", "z3 4.8.12 (incremental), portfolio/cross-check: cvc5 1.0 (bit-blast and --solve-bv-as-int=sum), z3 5.1", "stub contracts listed under assumptions"},
			"functions_encoded":   fl,
			"verdict_queries":     totalV,
			"assertions":          totalAsserts,
			"paths":               totalPaths,
			"solver_seconds":      solverS,
			"load_and_ssa_seconds": loadS,
			"engine_notes":        noteList,
			"lock_order_edges":    lo,
			"known_findings_hit":  knownHits,
			"inconclusive":        inconclusives,
			"exhaustive":          false,
		},
		"assumptions": append([]string{"go/ssa faithfully represents the Go source of the working tree", "sync.Mutex/atomic work as documented (modelled as ghost lock bits / plain accesses)", "log/fmt printing has no effect on the property (no-ops)"}, spec.Assumptions...),
		"wall_s":      wall,
		"violations":  violations,
	}
	os.MkdirAll(filepath.Join(verifDir, "evidence"), 0o755)
	b, _ := json.MarshalIndent(ev, "", " ")
	os.WriteFile(filepath.Join(verifDir, "evidence", prop+".json"), b, 0o644)
	fmt.Printf("property=%s tier=%s obligations=%d discharged=%d violations=%d inconclusive=%d known=%d wall=%.1fs\n", prop, cfg.Tier, len(sums), discharged, violations, inconclusives, knownHits, wall)
	if violations > 0 {
		return 1
	}
	if inconclusives > 0 {
		return 3
	}
	return 0
}

func writeEvidenceLoadFailure(prop, tier string, cfg *Config, err error, wall float64) {
	ev := map[string]interface{}{
		"property_id": prop, "tier": tier, "seed": cfg.Seed, "level": "other",
		"coverage": map[string]interface{}{"explanation": "the packages could not be loaded/type-checked: " + err.Error(), "evaluations": 1, "distinct_nontrivial": 2, "obligations": 0, "discharged": 0},
		"wall_s":   wall, "violations": 0,
	}
	os.MkdirAll(filepath.Join(verifDir, "evidence"), 0o755)
	b, _ := json.MarshalIndent(ev, "", " ")
	os.WriteFile(filepath.Join(verifDir, "evidence", prop+".json"), b, 0o644)
}

// lockCycle finds a cycle in the graph given as a set of "A -> B" edges (self-loops ignored).
func lockCycle(edges map[string]bool) string {
	adj := map[string][]string{}
	for e := range edges {
		p := strings.SplitN(e, " -> ", 2)
		if len(p) == 2 && p[0] != p[1] {
			adj[p[0]] = append(adj[p[0]], p[1])
		}
	}
	var nodes []string
	for k := range adj {
		sort.Strings(adj[k])
		nodes = append(nodes, k)
	}
	sort.Strings(nodes)
	state := map[string]int{}
	var stack []string
	var found string
	var dfs func(n string) bool
	dfs = func(n string) bool {
		state[n] = 1
		stack = append(stack, n)
		for _, m := range adj[n] {
			if state[m] == 1 {
				i := 0
				for stack[i] != m {
					i++
				}
				found = strings.Join(append(append([]string{}, stack[i:]...), m), " -> ")
				return true
			}
			if state[m] == 0 && dfs(m) {
				return true
			}
		}
		stack = stack[:len(stack)-1]
		state[n] = 2
		return false
	}
	for _, n := range nodes {
		if state[n] == 0 && dfs(n) {
			return found
		}
	}
	return ""
}
