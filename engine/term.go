package main

// Hash-consed SMT terms (Bool, BitVec<=64, Array BV->BV) with constant
// folding on construction, so that everything computed from constants
// stays concrete and never reaches a solver.

import (
	"fmt"
	"math/bits"
	"strconv"
	"strings"
)

type Op uint8

const (
	OpConst Op = iota
	OpVar
	OpNot
	OpAnd
	OpOr
	OpEq
	OpIte
	OpAdd
	OpSub
	OpMul
	OpUDiv
	OpURem
	OpSDiv
	OpSRem
	OpShl
	OpLShr
	OpAShr
	OpBAnd
	OpBOr
	OpBXor
	OpBNot
	OpNeg
	OpUlt
	OpUle
	OpSlt
	OpSle
	OpExtract // p1=hi p2=lo
	OpConcat
	OpZext // to width w
	OpSext
	OpSelect
	OpStore
	OpConstArr // args[0] = default elem
	OpUF       // name = function symbol; args
)

var opNames = map[Op]string{
	OpNot: "not", OpAnd: "and", OpOr: "or", OpEq: "=", OpIte: "ite",
	OpAdd: "bvadd", OpSub: "bvsub", OpMul: "bvmul", OpUDiv: "bvudiv", OpURem: "bvurem",
	OpSDiv: "bvsdiv", OpSRem: "bvsrem", OpShl: "bvshl", OpLShr: "bvlshr", OpAShr: "bvashr",
	OpBAnd: "bvand", OpBOr: "bvor", OpBXor: "bvxor", OpBNot: "bvnot", OpNeg: "bvneg",
	OpUlt: "bvult", OpUle: "bvule", OpSlt: "bvslt", OpSle: "bvsle", OpConcat: "concat",
	OpSelect: "select", OpStore: "store",
}

// Sort: w==0 => Bool; w>0, iw==0 => BitVec w; iw>0 => Array (BV iw) (BV w)
type Sort struct {
	w  int
	iw int
}

var BoolSort = Sort{}

func BV(w int) Sort { return Sort{w: w} }

func (s Sort) IsBool() bool  { return s.w == 0 && s.iw == 0 }
func (s Sort) IsArray() bool { return s.iw > 0 }
func (s Sort) String() string {
	if s.IsBool() {
		return "Bool"
	}
	if s.IsArray() {
		return fmt.Sprintf("(Array (_ BitVec %d) (_ BitVec %d))", s.iw, s.w)
	}
	return fmt.Sprintf("(_ BitVec %d)", s.w)
}

type Term struct {
	id   int
	op   Op
	sort Sort
	args []*Term
	val  uint64 // OpConst (bool: 0/1)
	name string // OpVar / OpUF
	p1   int
	p2   int
}

type tkey struct {
	op         Op
	sort       Sort
	a0, a1, a2 int
	val        uint64
	name       string
	p1, p2     int
}

type Ctx struct {
	table  map[tkey]*Term
	nterms int
	vars   map[string]*Term
	ufs    map[string]*Term // one representative application per UF name (for declaration)
	fresh  int
	True   *Term
	False  *Term
}

func NewCtx() *Ctx {
	c := &Ctx{table: map[tkey]*Term{}, vars: map[string]*Term{}, ufs: map[string]*Term{}}
	c.True = c.mk(OpConst, BoolSort, nil, 1, "", 0, 0)
	c.False = c.mk(OpConst, BoolSort, nil, 0, "", 0, 0)
	return c
}

func (c *Ctx) mk(op Op, sort Sort, args []*Term, val uint64, name string, p1, p2 int) *Term {
	k := tkey{op: op, sort: sort, val: val, name: name, p1: p1, p2: p2, a0: -1, a1: -1, a2: -1}
	switch len(args) {
	case 0:
	case 1:
		k.a0 = args[0].id
	case 2:
		k.a0, k.a1 = args[0].id, args[1].id
	case 3:
		k.a0, k.a1, k.a2 = args[0].id, args[1].id, args[2].id
	default:
		var sb strings.Builder
		sb.WriteString(name)
		for _, a := range args {
			sb.WriteByte('#')
			sb.WriteString(strconv.Itoa(a.id))
		}
		k.name = sb.String()
	}
	if t, ok := c.table[k]; ok {
		return t
	}
	t := &Term{id: c.nterms, op: op, sort: sort, args: args, val: val, name: name, p1: p1, p2: p2}
	c.nterms++
	c.table[k] = t
	return t
}

func mask(w int) uint64 {
	if w >= 64 {
		return ^uint64(0)
	}
	return (uint64(1) << uint(w)) - 1
}

func (t *Term) IsConst() bool { return t.op == OpConst }
func (t *Term) IsTrue() bool  { return t.op == OpConst && t.sort.IsBool() && t.val == 1 }
func (t *Term) IsFalse() bool { return t.op == OpConst && t.sort.IsBool() && t.val == 0 }
func (t *Term) W() int        { return t.sort.w }

// signed value of a constant
func (t *Term) SVal() int64 {
	w := t.sort.w
	if w >= 64 {
		return int64(t.val)
	}
	if t.val&(uint64(1)<<uint(w-1)) != 0 {
		return int64(t.val | ^mask(w))
	}
	return int64(t.val)
}

func (c *Ctx) Const(w int, v uint64) *Term {
	return c.mk(OpConst, BV(w), nil, v&mask(w), "", 0, 0)
}
func (c *Ctx) Bool(b bool) *Term {
	if b {
		return c.True
	}
	return c.False
}
func (c *Ctx) Var(name string, s Sort) *Term {
	if t, ok := c.vars[name]; ok {
		if t.sort != s {
			panic("variable " + name + " redeclared with another sort")
		}
		return t
	}
	t := c.mk(OpVar, s, nil, 0, name, 0, 0)
	c.vars[name] = t
	return t
}
func (c *Ctx) Fresh(prefix string, s Sort) *Term {
	c.fresh++
	return c.Var(fmt.Sprintf("%s!%d", prefix, c.fresh), s)
}

func (c *Ctx) UF(name string, s Sort, args ...*Term) *Term {
	t := c.mk(OpUF, s, args, 0, name, 0, 0)
	if _, ok := c.ufs[name]; !ok {
		c.ufs[name] = t
	}
	return t
}

// ---------- boolean ----------

func (c *Ctx) Not(a *Term) *Term {
	if a.IsConst() {
		return c.Bool(a.val == 0)
	}
	if a.op == OpNot {
		return a.args[0]
	}
	return c.mk(OpNot, BoolSort, []*Term{a}, 0, "", 0, 0)
}

func (c *Ctx) And(a, b *Term) *Term {
	if a.IsFalse() || b.IsFalse() {
		return c.False
	}
	if a.IsTrue() {
		return b
	}
	if b.IsTrue() {
		return a
	}
	if a == b {
		return a
	}
	if (a.op == OpNot && a.args[0] == b) || (b.op == OpNot && b.args[0] == a) {
		return c.False
	}
	if a.id > b.id {
		a, b = b, a
	}
	return c.mk(OpAnd, BoolSort, []*Term{a, b}, 0, "", 0, 0)
}

func (c *Ctx) Or(a, b *Term) *Term {
	if a.IsTrue() || b.IsTrue() {
		return c.True
	}
	if a.IsFalse() {
		return b
	}
	if b.IsFalse() {
		return a
	}
	if a == b {
		return a
	}
	if (a.op == OpNot && a.args[0] == b) || (b.op == OpNot && b.args[0] == a) {
		return c.True
	}
	if a.id > b.id {
		a, b = b, a
	}
	return c.mk(OpOr, BoolSort, []*Term{a, b}, 0, "", 0, 0)
}

func (c *Ctx) Implies(a, b *Term) *Term { return c.Or(c.Not(a), b) }

func (c *Ctx) AndN(ts ...*Term) *Term {
	r := c.True
	for _, t := range ts {
		r = c.And(r, t)
	}
	return r
}

func (c *Ctx) Eq(a, b *Term) *Term {
	if a.sort != b.sort {
		panic(fmt.Sprintf("Eq: sort mismatch %v vs %v", a.sort, b.sort))
	}
	if a == b {
		return c.True
	}
	if a.IsConst() && b.IsConst() {
		return c.Bool(a.val == b.val)
	}
	if a.sort.IsBool() {
		if a.IsConst() {
			a, b = b, a
		}
		if b.IsTrue() {
			return a
		}
		if b.IsFalse() {
			return c.Not(a)
		}
	}
	// distribute over ite with constant leaves
	if r := c.distIte2(a, b, c.Eq); r != nil {
		return r
	}
	if a.id > b.id {
		a, b = b, a
	}
	return c.mk(OpEq, BoolSort, []*Term{a, b}, 0, "", 0, 0)
}

func (c *Ctx) Ite(cond, a, b *Term) *Term {
	if a.sort != b.sort {
		panic(fmt.Sprintf("Ite: sort mismatch %v vs %v", a.sort, b.sort))
	}
	if cond.IsTrue() {
		return a
	}
	if cond.IsFalse() {
		return b
	}
	if a == b {
		return a
	}
	if a.sort.IsBool() {
		if a.IsTrue() && b.IsFalse() {
			return cond
		}
		if a.IsFalse() && b.IsTrue() {
			return c.Not(cond)
		}
		if a.IsTrue() {
			return c.Or(cond, b)
		}
		if a.IsFalse() {
			return c.And(c.Not(cond), b)
		}
		if b.IsTrue() {
			return c.Or(c.Not(cond), a)
		}
		if b.IsFalse() {
			return c.And(cond, a)
		}
	}
	if cond.op == OpNot {
		return c.Ite(cond.args[0], b, a)
	}
	return c.mk(OpIte, a.sort, []*Term{cond, a, b}, 0, "", 0, 0)
}

// isIteConstTree: small ite tree whose leaves are all constants
func isIteConstTree(t *Term, depth int) bool {
	if t.IsConst() {
		return true
	}
	if t.op != OpIte || depth == 0 {
		return false
	}
	return isIteConstTree(t.args[1], depth-1) && isIteConstTree(t.args[2], depth-1)
}

// distIte2 pushes a binary operation with one constant operand into an
// ite-tree of constants: op(ite(c,k1,k2),k3) = ite(c,op(k1,k3),op(k2,k3)).
func (c *Ctx) distIte2(a, b *Term, f func(x, y *Term) *Term) *Term {
	if a.op == OpIte && b.IsConst() && isIteConstTree(a, 4) {
		return c.Ite(a.args[0], f(a.args[1], b), f(a.args[2], b))
	}
	if b.op == OpIte && a.IsConst() && isIteConstTree(b, 4) {
		return c.Ite(b.args[0], f(a, b.args[1]), f(a, b.args[2]))
	}
	return nil
}

// ---------- bit-vectors ----------

func sext64(v uint64, w int) int64 {
	if w >= 64 {
		return int64(v)
	}
	if v&(uint64(1)<<uint(w-1)) != 0 {
		return int64(v | ^mask(w))
	}
	return int64(v)
}

func foldBin(op Op, w int, x, y uint64) (uint64, bool) {
	m := mask(w)
	switch op {
	case OpAdd:
		return (x + y) & m, true
	case OpSub:
		return (x - y) & m, true
	case OpMul:
		return (x * y) & m, true
	case OpUDiv:
		if y == 0 {
			return m, true
		}
		return x / y, true
	case OpURem:
		if y == 0 {
			return x, true
		}
		return x % y, true
	case OpSDiv:
		sx, sy := sext64(x, w), sext64(y, w)
		if sy == 0 {
			if sx >= 0 {
				return m, true
			}
			return 1, true
		}
		if sy == -1 {
			return uint64(-sx) & m, true
		}
		return uint64(sx/sy) & m, true
	case OpSRem:
		sx, sy := sext64(x, w), sext64(y, w)
		if sy == 0 {
			return x, true
		}
		if sy == -1 {
			return 0, true
		}
		return uint64(sx%sy) & m, true
	case OpShl:
		if y >= uint64(w) {
			return 0, true
		}
		return (x << y) & m, true
	case OpLShr:
		if y >= uint64(w) {
			return 0, true
		}
		return x >> y, true
	case OpAShr:
		sx := sext64(x, w)
		if y >= uint64(w) {
			y = uint64(w - 1)
		}
		return uint64(sx>>y) & m, true
	case OpBAnd:
		return x & y, true
	case OpBOr:
		return x | y, true
	case OpBXor:
		return x ^ y, true
	}
	return 0, false
}

func (c *Ctx) Bin(op Op, a, b *Term) *Term {
	if a.sort != b.sort || a.sort.w == 0 || a.sort.IsArray() {
		panic(fmt.Sprintf("Bin %s: sorts %v %v", opNames[op], a.sort, b.sort))
	}
	w := a.sort.w
	if a.IsConst() && b.IsConst() {
		if v, ok := foldBin(op, w, a.val, b.val); ok {
			return c.Const(w, v)
		}
	}
	switch op {
	case OpAdd:
		if a.IsConst() && a.val == 0 {
			return b
		}
		if b.IsConst() && b.val == 0 {
			return a
		}
		// (x + k1) + k2
		if b.IsConst() && a.op == OpAdd && a.args[1].IsConst() {
			return c.Bin(OpAdd, a.args[0], c.Const(w, a.args[1].val+b.val))
		}
		if a.IsConst() { // constants to the right
			a, b = b, a
		}
	case OpSub:
		if b.IsConst() && b.val == 0 {
			return a
		}
		if a == b {
			return c.Const(w, 0)
		}
		if b.IsConst() { // x - k = x + (-k)
			return c.Bin(OpAdd, a, c.Const(w, -b.val))
		}
		// (x + k1) - (x + k2), (x + k) - x, x - (x + k)
		{
			ax, ak := a, uint64(0)
			if a.op == OpAdd && a.args[1].IsConst() {
				ax, ak = a.args[0], a.args[1].val
			}
			bx, bk := b, uint64(0)
			if b.op == OpAdd && b.args[1].IsConst() {
				bx, bk = b.args[0], b.args[1].val
			}
			if ax == bx {
				return c.Const(w, ak-bk)
			}
		}
	case OpMul:
		if a.IsConst() {
			a, b = b, a
		}
		if b.IsConst() {
			if b.val == 0 {
				return b
			}
			if b.val == 1 {
				return a
			}
			if b.val&(b.val-1) == 0 { // power of two: shift
				return c.Bin(OpShl, a, c.Const(w, uint64(bits.TrailingZeros64(b.val))))
			}
		}
	case OpBAnd:
		if a == b {
			return a
		}
		if a.IsConst() {
			a, b = b, a
		}
		if b.IsConst() {
			if b.val == 0 {
				return b
			}
			if b.val == mask(w) {
				return a
			}
			// zext(x) & k with k's low bits (the only possibly set ones) all zero
			if a.op == OpZext && b.val&mask(a.args[0].sort.w) == 0 {
				return c.Const(w, 0)
			}
		}
	case OpBOr:
		if a == b {
			return a
		}
		if a.IsConst() {
			a, b = b, a
		}
		if b.IsConst() {
			if b.val == 0 {
				return a
			}
			if b.val == mask(w) {
				return b
			}
		}
	case OpBXor:
		if a == b {
			return c.Const(w, 0)
		}
		if a.IsConst() {
			a, b = b, a
		}
		if b.IsConst() && b.val == 0 {
			return a
		}
	case OpShl, OpLShr, OpAShr:
		if b.IsConst() && b.val == 0 {
			return a
		}
		if b.IsConst() && b.val >= uint64(w) && op != OpAShr {
			return c.Const(w, 0)
		}
		if a.IsConst() && a.val == 0 {
			return a
		}
	case OpUDiv:
		if b.IsConst() && b.val == 1 {
			return a
		}
	}
	if r := c.distIte2(a, b, func(x, y *Term) *Term { return c.Bin(op, x, y) }); r != nil {
		return r
	}
	return c.mk(op, a.sort, []*Term{a, b}, 0, "", 0, 0)
}

func (c *Ctx) BNot(a *Term) *Term {
	if a.IsConst() {
		return c.Const(a.sort.w, ^a.val)
	}
	if a.op == OpBNot {
		return a.args[0]
	}
	return c.mk(OpBNot, a.sort, []*Term{a}, 0, "", 0, 0)
}

func (c *Ctx) Neg(a *Term) *Term {
	if a.IsConst() {
		return c.Const(a.sort.w, -a.val)
	}
	return c.mk(OpNeg, a.sort, []*Term{a}, 0, "", 0, 0)
}

func (c *Ctx) Cmp(op Op, a, b *Term) *Term {
	if a.sort != b.sort || a.sort.w == 0 {
		panic(fmt.Sprintf("Cmp %s: sorts %v %v", opNames[op], a.sort, b.sort))
	}
	w := a.sort.w
	if a.IsConst() && b.IsConst() {
		switch op {
		case OpUlt:
			return c.Bool(a.val < b.val)
		case OpUle:
			return c.Bool(a.val <= b.val)
		case OpSlt:
			return c.Bool(sext64(a.val, w) < sext64(b.val, w))
		case OpSle:
			return c.Bool(sext64(a.val, w) <= sext64(b.val, w))
		}
	}
	if a == b {
		return c.Bool(op == OpUle || op == OpSle)
	}
	switch op {
	case OpUlt:
		if b.IsConst() && b.val == 0 {
			return c.False
		}
		// zext(x) < k with k > max(x)
		if b.IsConst() && a.op == OpZext && b.val > mask(a.args[0].sort.w) {
			return c.True
		}
	case OpUle:
		if a.IsConst() && a.val == 0 {
			return c.True
		}
		if b.IsConst() && b.val == mask(w) {
			return c.True
		}
		if b.IsConst() && a.op == OpZext && b.val >= mask(a.args[0].sort.w) {
			return c.True
		}
	case OpSlt:
		// zext(x) <s k, k non-negative and beyond range of x
		if b.IsConst() && a.op == OpZext && a.args[0].sort.w < w && sext64(b.val, w) > int64(mask(a.args[0].sort.w)) {
			return c.True
		}
		if b.IsConst() && a.op == OpZext && a.args[0].sort.w < w && sext64(b.val, w) <= 0 {
			return c.False
		}
	case OpSle:
		if b.IsConst() && a.op == OpZext && a.args[0].sort.w < w && sext64(b.val, w) >= int64(mask(a.args[0].sort.w)) {
			return c.True
		}
		if a.IsConst() && b.op == OpZext && b.args[0].sort.w < w && sext64(a.val, w) <= 0 {
			return c.True
		}
	}
	if r := c.distIte2(a, b, func(x, y *Term) *Term { return c.Cmp(op, x, y) }); r != nil {
		return r
	}
	return c.mk(op, BoolSort, []*Term{a, b}, 0, "", 0, 0)
}

func (c *Ctx) Extract(hi, lo int, a *Term) *Term {
	w := hi - lo + 1
	if lo == 0 && w == a.sort.w {
		return a
	}
	if a.IsConst() {
		return c.Const(w, a.val>>uint(lo))
	}
	if (a.op == OpZext || a.op == OpSext) && hi < a.args[0].sort.w {
		return c.Extract(hi, lo, a.args[0])
	}
	if a.op == OpZext && lo >= a.args[0].sort.w {
		return c.Const(w, 0)
	}
	if a.op == OpConcat {
		lw := a.args[1].sort.w
		if hi < lw {
			return c.Extract(hi, lo, a.args[1])
		}
		if lo >= lw {
			return c.Extract(hi-lw, lo-lw, a.args[0])
		}
	}
	if a.op == OpIte && isIteConstTree(a, 4) {
		return c.Ite(a.args[0], c.Extract(hi, lo, a.args[1]), c.Extract(hi, lo, a.args[2]))
	}
	return c.mk(OpExtract, BV(w), []*Term{a}, 0, "", hi, lo)
}

func (c *Ctx) Concat(a, b *Term) *Term {
	w := a.sort.w + b.sort.w
	if w > 64 {
		panic("concat wider than 64")
	}
	if a.IsConst() && b.IsConst() {
		return c.Const(w, a.val<<uint(b.sort.w)|b.val)
	}
	if a.IsConst() && a.val == 0 {
		return c.Zext(w, b)
	}
	return c.mk(OpConcat, BV(w), []*Term{a, b}, 0, "", 0, 0)
}

func (c *Ctx) Zext(w int, a *Term) *Term {
	if a.sort.w == w {
		return a
	}
	if a.sort.w > w {
		return c.Extract(w-1, 0, a)
	}
	if a.IsConst() {
		return c.Const(w, a.val)
	}
	if a.op == OpZext {
		return c.Zext(w, a.args[0])
	}
	if a.op == OpIte && isIteConstTree(a, 4) {
		return c.Ite(a.args[0], c.Zext(w, a.args[1]), c.Zext(w, a.args[2]))
	}
	return c.mk(OpZext, BV(w), []*Term{a}, 0, "", 0, 0)
}

func (c *Ctx) Sext(w int, a *Term) *Term {
	if a.sort.w == w {
		return a
	}
	if a.sort.w > w {
		return c.Extract(w-1, 0, a)
	}
	if a.IsConst() {
		return c.Const(w, uint64(sext64(a.val, a.sort.w)))
	}
	if a.op == OpZext { // sign bit is zero
		return c.Zext(w, a.args[0])
	}
	if a.op == OpIte && isIteConstTree(a, 4) {
		return c.Ite(a.args[0], c.Sext(w, a.args[1]), c.Sext(w, a.args[2]))
	}
	return c.mk(OpSext, BV(w), []*Term{a}, 0, "", 0, 0)
}

// ---------- arrays ----------

func (c *Ctx) ConstArr(iw int, def *Term) *Term {
	return c.mk(OpConstArr, Sort{w: def.sort.w, iw: iw}, []*Term{def}, 0, "", 0, 0)
}

func (c *Ctx) Select(a, i *Term) *Term {
	if !a.sort.IsArray() || i.sort.w != a.sort.iw {
		panic("Select: bad sorts")
	}
	// read-over-write with decidable index comparison
	for a.op == OpStore {
		if a.args[1] == i {
			return a.args[2]
		}
		if a.args[1].IsConst() && i.IsConst() {
			a = a.args[0]
			continue
		}
		break
	}
	if a.op == OpConstArr {
		return a.args[0]
	}
	return c.mk(OpSelect, BV(a.sort.w), []*Term{a, i}, 0, "", 0, 0)
}

func (c *Ctx) Store(a, i, v *Term) *Term {
	if !a.sort.IsArray() || i.sort.w != a.sort.iw || v.sort.w != a.sort.w {
		panic("Store: bad sorts")
	}
	return c.mk(OpStore, a.sort, []*Term{a, i, v}, 0, "", 0, 0)
}

// ---------- printing ----------

func quoteSym(s string) string {
	ok := true
	for _, r := range s {
		if !(r >= 'a' && r <= 'z' || r >= 'A' && r <= 'Z' || r >= '0' && r <= '9' || r == '_' || r == '.' || r == '!') {
			ok = false
			break
		}
	}
	if ok && s != "" && !(s[0] >= '0' && s[0] <= '9') {
		return s
	}
	return "|" + strings.ReplaceAll(s, "|", "_") + "|"
}

func constStr(t *Term) string {
	if t.sort.IsBool() {
		if t.val == 1 {
			return "true"
		}
		return "false"
	}
	return fmt.Sprintf("(_ bv%d %d)", t.val, t.sort.w)
}

// ref returns how a term is referred to inside another expression.
func (t *Term) ref() string {
	switch t.op {
	case OpConst:
		return constStr(t)
	case OpVar:
		return quoteSym(t.name)
	}
	return "t" + strconv.Itoa(t.id)
}

// body returns the defining expression of a compound term over refs.
func (t *Term) body() string {
	var sb strings.Builder
	switch t.op {
	case OpExtract:
		fmt.Fprintf(&sb, "((_ extract %d %d) %s)", t.p1, t.p2, t.args[0].ref())
	case OpZext:
		fmt.Fprintf(&sb, "((_ zero_extend %d) %s)", t.sort.w-t.args[0].sort.w, t.args[0].ref())
	case OpSext:
		fmt.Fprintf(&sb, "((_ sign_extend %d) %s)", t.sort.w-t.args[0].sort.w, t.args[0].ref())
	case OpConstArr:
		fmt.Fprintf(&sb, "((as const %s) %s)", t.sort.String(), t.args[0].ref())
	case OpUF:
		if len(t.args) == 0 {
			return quoteSym(t.name)
		}
		sb.WriteString("(" + quoteSym(t.name))
		for _, a := range t.args {
			sb.WriteString(" " + a.ref())
		}
		sb.WriteString(")")
	default:
		sb.WriteString("(" + opNames[t.op])
		for _, a := range t.args {
			sb.WriteString(" " + a.ref())
		}
		sb.WriteString(")")
	}
	return sb.String()
}

// Emitter writes declarations/definitions needed for a set of terms, once.
type Emitter struct {
	done map[int]bool
	ufs  map[string]bool
}

func NewEmitter() *Emitter { return &Emitter{done: map[int]bool{}, ufs: map[string]bool{}} }

func (e *Emitter) Emit(sb *strings.Builder, t *Term) {
	if e.done[t.id] || t.op == OpConst {
		return
	}
	// iterative post-order to survive very deep store/ite chains
	type fr struct {
		t *Term
		i int
	}
	stack := []fr{{t, 0}}
	for len(stack) > 0 {
		f := &stack[len(stack)-1]
		if f.i < len(f.t.args) {
			a := f.t.args[f.i]
			f.i++
			if !e.done[a.id] && a.op != OpConst {
				stack = append(stack, fr{a, 0})
			}
			continue
		}
		x := f.t
		stack = stack[:len(stack)-1]
		if e.done[x.id] {
			continue
		}
		e.done[x.id] = true
		switch x.op {
		case OpVar:
			fmt.Fprintf(sb, "(declare-fun %s () %s)\n", quoteSym(x.name), x.sort.String())
		case OpUF:
			if !e.ufs[x.name] {
				e.ufs[x.name] = true
				fmt.Fprintf(sb, "(declare-fun %s (", quoteSym(x.name))
				for i, a := range x.args {
					if i > 0 {
						sb.WriteByte(' ')
					}
					sb.WriteString(a.sort.String())
				}
				fmt.Fprintf(sb, ") %s)\n", x.sort.String())
			}
			fmt.Fprintf(sb, "(define-fun t%d () %s %s)\n", x.id, x.sort.String(), x.body())
		default:
			fmt.Fprintf(sb, "(define-fun t%d () %s %s)\n", x.id, x.sort.String(), x.body())
		}
	}
}

// String renders a term fully inlined (for diagnostics; may be large).
func (t *Term) String() string {
	return t.str(0)
}

func (t *Term) str(d int) string {
	if t.op == OpConst {
		if t.sort.IsBool() {
			return constStr(t)
		}
		return fmt.Sprintf("%d:%d", t.val, t.sort.w)
	}
	if t.op == OpVar {
		return t.name
	}
	if d > 6 {
		return "…"
	}
	var sb strings.Builder
	n := opNames[t.op]
	switch t.op {
	case OpExtract:
		n = fmt.Sprintf("extract[%d:%d]", t.p1, t.p2)
	case OpZext:
		n = fmt.Sprintf("zext%d", t.sort.w)
	case OpSext:
		n = fmt.Sprintf("sext%d", t.sort.w)
	case OpConstArr:
		n = "constarr"
	case OpUF:
		n = t.name
	}
	sb.WriteString("(" + n)
	for _, a := range t.args {
		sb.WriteString(" " + a.str(d+1))
	}
	sb.WriteString(")")
	return sb.String()
}

// Vars collects the variables a term depends on.
func CollectVars(ts []*Term, out map[string]*Term) {
	seen := map[int]bool{}
	var st []*Term
	st = append(st, ts...)
	for len(st) > 0 {
		t := st[len(st)-1]
		st = st[:len(st)-1]
		if seen[t.id] {
			continue
		}
		seen[t.id] = true
		if t.op == OpVar {
			out[t.name] = t
		}
		st = append(st, t.args...)
	}
}
