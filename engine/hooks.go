package main

// Native interception of function-level stubs for replay ("R3" in DESIGN 2.8).
//
// Go cannot intercept a function natively, so for a replay the source file
// that declares each stubbed function is overlaid (go test -overlay; nothing
// is written to /repo, GOROOT or the module cache) by a mechanically patched
// copy: an exported hook variable of the function's type (receiver first) is
// appended, and the function body starts with
//
//	if ZZHook_X != nil { return ZZHook_X(recv, args...) }
//
// A generated file in the harness package (build tag verifreplay) assigns the
// harness's model function to the hook in init().  Under the symbolic run the
// engine redirects the call to the same model function, so both runs execute
// the same model around the same real code.

import (
	"go/types"
	"bytes"
	"fmt"
	"go/ast"
	"go/format"
	"go/parser"
	"go/token"
	"os"
	"sort"
	"strings"

	"golang.org/x/tools/go/ssa"
)

// findFunc resolves an ssa function name as printed by (*ssa.Function).String().
func findFunc(prog *ssa.Program, name string) *ssa.Function {
	if strings.HasPrefix(name, "(") {
		// (*pkg/path.T).M or (pkg/path.T).M
		end := strings.Index(name, ")")
		recv := name[1:end]
		method := name[end+2:]
		ptr := strings.HasPrefix(recv, "*")
		recv = strings.TrimPrefix(recv, "*")
		dot := strings.LastIndex(recv, ".")
		pkg := prog.ImportedPackage(recv[:dot])
		if pkg == nil {
			return nil
		}
		tm := pkg.Type(recv[dot+1:])
		if tm == nil {
			return nil
		}
		for _, isPtr := range []bool{ptr, !ptr} {
			t := tm.Type()
			if isPtr {
				t = typesNewPointer(t)
			}
			if fn := prog.LookupMethod(t, pkg.Pkg, method); fn != nil {
				return fn
			}
		}
		return nil
	}
	dot := strings.LastIndex(name, ".")
	pkg := prog.ImportedPackage(name[:dot])
	if pkg == nil {
		return nil
	}
	return pkg.Func(name[dot+1:])
}

type hookPlan struct {
	files map[string][]byte // real source path -> patched content
	reg   map[string]string // harness package path -> registration file content
}

func recvTypeName(e ast.Expr) string {
	switch x := e.(type) {
	case *ast.StarExpr:
		return recvTypeName(x.X)
	case *ast.Ident:
		return x.Name
	case *ast.IndexExpr:
		return recvTypeName(x.X)
	}
	return ""
}

// buildHooks prepares the overlay for the given stub table (only "model:" stubs).
func buildHooks(l *Loaded, stubs map[string]string, crashFiles []string) (*hookPlan, error) {
	plan := &hookPlan{files: map[string][]byte{}, reg: map[string]string{}}
	type regEntry struct{ pkgPath, hook, model, srcPkg string }
	var regs []regEntry
	names := make([]string, 0, len(stubs))
	for n := range stubs {
		names = append(names, n)
	}
	sort.Strings(names)
	for _, name := range names {
		kind := stubs[name]
		if !strings.HasPrefix(kind, "model:") {
			return nil, fmt.Errorf("stub %s: kind %q cannot be replayed natively", name, kind)
		}
		target := kind[len("model:"):]
		fn := findFunc(l.prog, name)
		if fn == nil {
			return nil, fmt.Errorf("stub %s: function not found", name)
		}
		if fn.Origin() != nil || fn.Signature.TypeParams() != nil || fn.Signature.RecvTypeParams() != nil {
			return nil, fmt.Errorf("stub %s: generic functions cannot be hooked", name)
		}
		decl, ok := fn.Syntax().(*ast.FuncDecl)
		if !ok {
			return nil, fmt.Errorf("stub %s: no declaration", name)
		}
		file := l.prog.Fset.Position(decl.Pos()).Filename
		src, have := plan.files[file]
		if !have {
			var err error
			if ov, ok := l.overlay[file]; ok {
				src = ov
			} else if src, err = os.ReadFile(file); err != nil {
				return nil, err
			}
		}
		fset := token.NewFileSet()
		af, err := parser.ParseFile(fset, file, src, parser.ParseComments)
		if err != nil {
			return nil, err
		}
		var fd *ast.FuncDecl
		wantRecv := ""
		if decl.Recv != nil && len(decl.Recv.List) > 0 {
			wantRecv = recvTypeName(decl.Recv.List[0].Type)
		}
		for _, d := range af.Decls {
			if x, ok := d.(*ast.FuncDecl); ok && x.Name.Name == decl.Name.Name {
				r := ""
				if x.Recv != nil && len(x.Recv.List) > 0 {
					r = recvTypeName(x.Recv.List[0].Type)
				}
				if r == wantRecv {
					fd = x
				}
			}
		}
		if fd == nil || fd.Body == nil {
			return nil, fmt.Errorf("stub %s: declaration not found in %s", name, file)
		}
		hook := "ZZHook_" + fd.Name.Name
		if wantRecv != "" {
			hook = "ZZHook_" + wantRecv + "_" + fd.Name.Name
		}
		// name all parameters
		var params []*ast.Field
		var callArgs []string
		if fd.Recv != nil && len(fd.Recv.List) > 0 {
			r := fd.Recv.List[0]
			if len(r.Names) == 0 || r.Names[0].Name == "_" {
				r.Names = []*ast.Ident{ast.NewIdent("zzrecv")}
			}
			params = append(params, &ast.Field{Names: []*ast.Ident{ast.NewIdent(r.Names[0].Name)}, Type: r.Type})
			callArgs = append(callArgs, r.Names[0].Name)
		}
		n := 0
		for _, p := range fd.Type.Params.List {
			if len(p.Names) == 0 {
				p.Names = []*ast.Ident{ast.NewIdent(fmt.Sprintf("zzp%d", n))}
				n++
			}
			for i, id := range p.Names {
				if id.Name == "_" {
					p.Names[i] = ast.NewIdent(fmt.Sprintf("zzp%d", n))
					n++
				}
			}
			for _, id := range p.Names {
				arg := id.Name
				if _, variadic := p.Type.(*ast.Ellipsis); variadic {
					arg += "..."
				}
				callArgs = append(callArgs, arg)
			}
			params = append(params, &ast.Field{Names: p.Names, Type: p.Type})
		}
		var buf bytes.Buffer
		if err := format.Node(&buf, fset, af); err != nil {
			return nil, err
		}
		// hook type text
		var tb bytes.Buffer
		ft := &ast.FuncType{Params: &ast.FieldList{List: params}, Results: fd.Type.Results}
		if err := format.Node(&tb, fset, ft); err != nil {
			return nil, err
		}
		call := hook + "(" + strings.Join(callArgs, ", ") + ")"
		stmt := "if " + hook + " != nil { " + call + "; return }"
		if fd.Type.Results != nil && len(fd.Type.Results.List) > 0 {
			stmt = "if " + hook + " != nil { return " + call + " }"
		}
		// insert the statement after the opening brace of the (re-printed) function body
		out := buf.String()
		var sig bytes.Buffer
		fdCopy := *fd
		fdCopy.Body = nil
		fdCopy.Doc = nil
		format.Node(&sig, fset, &fdCopy)
		idx := strings.Index(out, sig.String())
		if idx < 0 {
			return nil, fmt.Errorf("stub %s: cannot locate printed signature", name)
		}
		brace := strings.Index(out[idx+len(sig.String()):], "{")
		if brace < 0 {
			return nil, fmt.Errorf("stub %s: no body brace", name)
		}
		pos := idx + len(sig.String()) + brace + 1
		out = out[:pos] + "\n\t" + stmt + "\n" + out[pos:] + "\n// " + hook + " is set by the verification replay harness (never in a normal build).\nvar " + hook + " " + tb.String() + "\n"
		plan.files[file] = []byte(out)
		i := strings.LastIndex(target, ".")
		regs = append(regs, regEntry{pkgPath: modPath + "/" + target[:i], hook: hook, model: target[i+1:], srcPkg: fn.Pkg.Pkg.Path()})
	}
	// crash points: replace the mutating os / json calls of the listed files by
	// the zzverif wrappers (textually, on top of any function hooks)
	for _, rel := range crashFiles {
		file := repoDir + "/" + rel
		src, have := plan.files[file]
		if !have {
			var err error
			if ov, ok := l.overlay[file]; ok {
				src = ov
			} else if src, err = os.ReadFile(file); err != nil {
				return nil, err
			}
		}
		out := string(src)
		for _, r := range [][2]string{{"os.OpenFile(", "zzcrash.OsOpenFile("}, {"os.CreateTemp(", "zzcrash.OsCreateTemp("}, {"os.Remove(", "zzcrash.OsRemove("},
			{"os.Rename(", "zzcrash.OsRename("}, {"os.WriteFile(", "zzcrash.OsWriteFile("}, {"json.NewEncoder(", "zzcrash.NewEncoder("}} {
			out = strings.ReplaceAll(out, r[0], r[1])
		}
		i := strings.Index(out, "import (")
		if i < 0 {
			return nil, fmt.Errorf("crash file %s: no import block", rel)
		}
		out = out[:i+len("import (")] + "\n\tzzcrash \"" + modPath + "/zzverif\"" + out[i+len("import ("):]
		out += "\n// keep the imports used after the call-site replacement\nvar _ = os.Remove\nvar _ = json.NewEncoder\nvar _ = zzcrash.FSOps\n"
		plan.files[file] = []byte(out)
	}
	// registration files
	byPkg := map[string][]regEntry{}
	for _, r := range regs {
		byPkg[r.pkgPath] = append(byPkg[r.pkgPath], r)
	}
	for pkgPath, rs := range byPkg {
		sp := l.pkgs[pkgPath]
		if sp == nil {
			return nil, fmt.Errorf("model package %s not loaded", pkgPath)
		}
		var sb strings.Builder
		fmt.Fprintf(&sb, "//go:build verifreplay\n\npackage %s\n\n", sp.Pkg.Name())
		imports := map[string]string{}
		for _, r := range rs {
			if r.srcPkg != pkgPath {
				if _, ok := imports[r.srcPkg]; !ok {
					imports[r.srcPkg] = fmt.Sprintf("zzhk%d", len(imports))
				}
			}
		}
		if len(imports) > 0 {
			sb.WriteString("import (\n")
			ks := make([]string, 0, len(imports))
			for k := range imports {
				ks = append(ks, k)
			}
			sort.Strings(ks)
			for _, k := range ks {
				fmt.Fprintf(&sb, "\t%s %q\n", imports[k], k)
			}
			sb.WriteString(")\n\n")
		}
		sb.WriteString("func init() {\n")
		for _, r := range rs {
			if r.srcPkg == pkgPath {
				fmt.Fprintf(&sb, "\t%s = %s\n", r.hook, r.model)
			} else {
				fmt.Fprintf(&sb, "\t%s.%s = %s\n", imports[r.srcPkg], r.hook, r.model)
			}
		}
		sb.WriteString("}\n")
		plan.reg[pkgPath] = sb.String()
	}
	return plan, nil
}

func typesNewPointer(t types.Type) types.Type { return types.NewPointer(t) }
