package main

import (
	"fmt"
	"go/token"
	"go/types"
	"unicode/utf8"

	"golang.org/x/tools/go/ssa"
)

// ---------- binary / unary ----------

func (e *Exec) binop(st *State, op token.Token, a, b Value, ta, tb types.Type) Value {
	switch x := a.(type) {
	case *Term:
		y, ok := b.(*Term)
		if !ok {
			panic(e.abort("binop %v: %T vs %T", op, a, b))
		}
		return e.binopTerm(st, op, x, y, ta, tb)
	case *StrV:
		y := b.(*StrV)
		switch op {
		case token.ADD:
			nb := make([]*Term, 0, len(x.b)+len(y.b))
			nb = append(nb, x.b...)
			nb = append(nb, y.b...)
			return &StrV{nb}
		case token.EQL:
			return e.strEq(x, y)
		case token.NEQ:
			return e.c.Not(e.strEq(x, y))
		case token.LSS:
			return e.strLess(x, y, false)
		case token.LEQ:
			return e.strLess(x, y, true)
		case token.GTR:
			return e.strLess(y, x, false)
		case token.GEQ:
			return e.strLess(y, x, true)
		}
	case OpaqueV:
		switch op {
		case token.EQL, token.NEQ, token.LSS, token.LEQ, token.GTR, token.GEQ:
			return e.c.Fresh("fcmp", BoolSort)
		}
		return OpaqueV{"float"}
	}
	if _, ok := b.(OpaqueV); ok {
		switch op {
		case token.EQL, token.NEQ, token.LSS, token.LEQ, token.GTR, token.GEQ:
			return e.c.Fresh("fcmp", BoolSort)
		}
		return OpaqueV{"float"}
	}
	switch op {
	case token.EQL:
		return e.valEq(st, a, b)
	case token.NEQ:
		return e.c.Not(e.valEq(st, a, b))
	}
	panic(e.abort("unsupported binop %v on %T", op, a))
}

func (e *Exec) strEq(x, y *StrV) *Term {
	if len(x.b) != len(y.b) {
		return e.c.False
	}
	r := e.c.True
	for i := range x.b {
		r = e.c.And(r, e.c.Eq(x.b[i], y.b[i]))
		if r.IsFalse() {
			return r
		}
	}
	return r
}

// lexicographic
func (e *Exec) strLess(x, y *StrV, orEq bool) *Term {
	n := len(x.b)
	if len(y.b) < n {
		n = len(y.b)
	}
	// result if all common bytes equal
	var tail *Term
	if orEq {
		tail = e.c.Bool(len(x.b) <= len(y.b))
	} else {
		tail = e.c.Bool(len(x.b) < len(y.b))
	}
	r := tail
	for i := n - 1; i >= 0; i-- {
		r = e.c.Ite(e.c.Eq(x.b[i], y.b[i]), r, e.c.Cmp(OpUlt, x.b[i], y.b[i]))
	}
	return r
}

func (e *Exec) valEq(st *State, a, b Value) *Term {
	switch x := a.(type) {
	case *Term:
		return e.c.Eq(x, b.(*Term))
	case *StrV:
		return e.strEq(x, b.(*StrV))
	case Ptr:
		y := b.(Ptr)
		if x.obj != y.obj || len(x.path) != len(y.path) {
			return e.c.False
		}
		r := e.c.True
		for i := range x.path {
			sx, sy := x.path[i], y.path[i]
			if sx.sym == nil && sy.sym == nil {
				if sx.k != sy.k {
					return e.c.False
				}
				continue
			}
			tx, ty := sx.sym, sy.sym
			if tx == nil {
				tx = e.c.Const(64, uint64(sx.k))
			}
			if ty == nil {
				ty = e.c.Const(64, uint64(sy.k))
			}
			r = e.c.And(r, e.c.Eq(tx, ty))
		}
		return r
	case IfaceV:
		y := b.(IfaceV)
		if x.t == nil || y.t == nil {
			return e.c.Bool(x.t == nil && y.t == nil)
		}
		if !types.Identical(x.t, y.t) {
			return e.c.False
		}
		return e.valEq(st, x.v, y.v)
	case *StructV:
		y := b.(*StructV)
		r := e.c.True
		for i := range x.f {
			r = e.c.And(r, e.valEq(st, x.f[i], y.f[i]))
		}
		return r
	case *ArrayV:
		y := b.(*ArrayV)
		r := e.c.True
		for i := range x.e {
			r = e.c.And(r, e.valEq(st, x.e[i], y.e[i]))
		}
		return r
	case MapV:
		y := b.(MapV)
		return e.c.Bool(x.obj == y.obj)
	case ChanV:
		y := b.(ChanV)
		return e.c.Bool(x.obj == y.obj)
	case SliceV: // only comparison with nil is legal
		y := b.(SliceV)
		if y.base.IsNil() {
			return e.c.Bool(x.base.IsNil())
		}
		return e.c.Bool(y.base.IsNil() && x.base.IsNil())
	case FuncV:
		y := b.(FuncV)
		return e.c.Bool((x.fn == nil && x.intrinsic == "") == (y.fn == nil && y.intrinsic == ""))
	case OpaqueV:
		return e.c.Fresh("opaque_eq", BoolSort)
	}
	panic(e.abort("valEq on %T", a))
}

func (e *Exec) binopTerm(st *State, op token.Token, x, y *Term, ta, tb types.Type) Value {
	c := e.c
	if x.sort.IsBool() {
		switch op {
		case token.EQL:
			return c.Eq(x, y)
		case token.NEQ:
			return c.Not(c.Eq(x, y))
		case token.AND, token.LAND:
			return c.And(x, y)
		case token.OR, token.LOR:
			return c.Or(x, y)
		}
		panic(e.abort("bool binop %v", op))
	}
	_, signed, _ := isInt(ta)
	switch op {
	case token.ADD:
		return c.Bin(OpAdd, x, y)
	case token.SUB:
		return c.Bin(OpSub, x, y)
	case token.MUL:
		return c.Bin(OpMul, x, y)
	case token.QUO, token.REM:
		e.checkPanic(st, c.Eq(y, c.Const(y.sort.w, 0)), "integer divide by zero")
		if signed {
			if op == token.QUO {
				return c.Bin(OpSDiv, x, y)
			}
			return c.Bin(OpSRem, x, y)
		}
		if op == token.QUO {
			return c.Bin(OpUDiv, x, y)
		}
		return c.Bin(OpURem, x, y)
	case token.AND:
		return c.Bin(OpBAnd, x, y)
	case token.OR:
		return c.Bin(OpBOr, x, y)
	case token.XOR:
		return c.Bin(OpBXor, x, y)
	case token.AND_NOT:
		return c.Bin(OpBAnd, x, c.BNot(y))
	case token.SHL, token.SHR:
		// shift count: unsigned or signed (negative => panic); widths may differ
		_, ysigned, _ := isInt(tb)
		if ysigned {
			e.checkPanic(st, c.Cmp(OpSlt, y, c.Const(y.sort.w, 0)), "negative shift amount")
		}
		w := x.sort.w
		var cnt *Term
		var tooBig *Term
		if y.sort.w > w {
			tooBig = c.Not(c.Cmp(OpUlt, y, c.Const(y.sort.w, uint64(w))))
			cnt = c.Extract(w-1, 0, y)
		} else {
			cnt = c.Zext(w, y)
			tooBig = c.Not(c.Cmp(OpUlt, cnt, c.Const(w, uint64(w))))
		}
		var r, over *Term
		switch {
		case op == token.SHL:
			r, over = c.Bin(OpShl, x, cnt), c.Const(w, 0)
		case signed:
			r, over = c.Bin(OpAShr, x, cnt), c.Bin(OpAShr, x, c.Const(w, uint64(w-1)))
		default:
			r, over = c.Bin(OpLShr, x, cnt), c.Const(w, 0)
		}
		return c.Ite(tooBig, over, r)
	case token.EQL:
		return c.Eq(x, y)
	case token.NEQ:
		return c.Not(c.Eq(x, y))
	case token.LSS:
		if signed {
			return c.Cmp(OpSlt, x, y)
		}
		return c.Cmp(OpUlt, x, y)
	case token.LEQ:
		if signed {
			return c.Cmp(OpSle, x, y)
		}
		return c.Cmp(OpUle, x, y)
	case token.GTR:
		if signed {
			return c.Cmp(OpSlt, y, x)
		}
		return c.Cmp(OpUlt, y, x)
	case token.GEQ:
		if signed {
			return c.Cmp(OpSle, y, x)
		}
		return c.Cmp(OpUle, y, x)
	}
	panic(e.abort("unsupported integer binop %v", op))
}

func (e *Exec) unop(st *State, x *ssa.UnOp) Value {
	switch x.Op {
	case token.MUL: // load
		p := e.ptr(st, x.X, "load")
		v := e.load(st, p)
		if len(e.ob.guards) > 0 {
			e.locksetAccess(st, st.top(), x.X, p, v, false)
		}
		return v
	case token.NOT:
		return e.c.Not(e.term(st, x.X))
	case token.SUB:
		v := e.val(st, x.X)
		if t, ok := v.(*Term); ok {
			return e.c.Neg(t)
		}
		return OpaqueV{"fneg"}
	case token.XOR:
		return e.c.BNot(e.term(st, x.X))
	case token.ARROW:
		return e.chanRecv(st, x)
	}
	panic(e.abort("unsupported unop %v", x.Op))
}

// ---------- conversions ----------

func (e *Exec) convert(st *State, v Value, from, to types.Type) Value {
	fu, tu := from.Underlying(), to.Underlying()
	if tw, _, ok := isInt(to); ok {
		if fw, fsigned, ok := isInt(from); ok {
			t := v.(*Term)
			_ = fw
			if fsigned {
				return e.c.Sext(tw, t)
			}
			return e.c.Zext(tw, t)
		}
		if isFloatT(from) {
			return e.c.Fresh("f2i", BV(tw))
		}
		if b, ok := fu.(*types.Basic); ok && b.Kind() == types.UnsafePointer {
			panic(e.abort("unsafe.Pointer to integer conversion"))
		}
	}
	if isFloatT(to) {
		return OpaqueV{"float"}
	}
	if isStringT(to) {
		switch f := fu.(type) {
		case *types.Slice: // []byte or []rune -> string
			s := v.(SliceV)
			n := int(e.concretize(st, s.len, "string(bytes) length"))
			if eb, ok := f.Elem().Underlying().(*types.Basic); ok && eb.Kind() == types.Int32 {
				var out []*Term
				for i := 0; i < n; i++ {
					r := e.load(st, e.sliceElemPtr(s, e.c.Const(64, uint64(i)))).(*Term)
					rv := e.concretize(st, r, "rune in string([]rune)")
					var buf [4]byte
					m := utf8.EncodeRune(buf[:], rune(int32(rv)))
					for _, c := range buf[:m] {
						out = append(out, e.c.Const(8, uint64(c)))
					}
				}
				return &StrV{out}
			}
			bs := make([]*Term, n)
			for i := 0; i < n; i++ {
				bs[i] = e.load(st, e.sliceElemPtr(s, e.c.Const(64, uint64(i)))).(*Term)
			}
			return &StrV{bs}
		case *types.Basic:
			if f.Info()&types.IsString != 0 {
				return v
			}
			if f.Info()&types.IsInteger != 0 { // string(rune)
				t := v.(*Term)
				rv := e.concretize(st, t, "string(rune)")
				var buf [4]byte
				r := rune(int64(sext64(rv, t.sort.w)))
				if t.sort.w == 64 && (int64(rv) < 0 || int64(rv) > utf8.MaxRune) {
					r = utf8.RuneError
				}
				m := utf8.EncodeRune(buf[:], r)
				return e.strConst(string(buf[:m]))
			}
		}
	}
	if ts, ok := tu.(*types.Slice); ok && isStringT(from) {
		s := v.(*StrV)
		if eb, ok := ts.Elem().Underlying().(*types.Basic); ok && eb.Kind() == types.Int32 {
			// []rune(string): decode with concrete bytes only
			cs, ok := strConcrete(s)
			if !ok {
				panic(e.abort("[]rune(string) on symbolic string"))
			}
			rs := []rune(cs)
			sl := e.newSlice(st, ts.Elem(), len(rs), len(rs))
			for i, r := range rs {
				e.store(st, e.sliceElemPtr(sl, e.c.Const(64, uint64(i))), e.c.Const(32, uint64(r)))
			}
			return sl
		}
		el := make([]Value, len(s.b))
		for i := range el {
			el[i] = s.b[i]
		}
		p := e.alloc(st, &ArrayV{el})
		return SliceV{base: p, len: e.c.Const(64, uint64(len(el))), cap: len(el)}
	}
	// pointer <-> unsafe.Pointer, named conversions
	switch v.(type) {
	case Ptr, SliceV, MapV, ChanV, FuncV, *StructV, *ArrayV, IfaceV:
		return v
	}
	panic(e.abort("unsupported conversion %v -> %v", from, to))
}

// ---------- calls ----------

func (e *Exec) callArgs(st *State, cc *ssa.CallCommon) []Value {
	args := make([]Value, len(cc.Args))
	for i, a := range cc.Args {
		args[i] = e.val(st, a)
	}
	return args
}

// resolve returns the function value and full argument list for a call.
func (e *Exec) resolve(st *State, cc *ssa.CallCommon) (FuncV, []Value) {
	args := e.callArgs(st, cc)
	if cc.IsInvoke() {
		iv, ok := e.val(st, cc.Value).(IfaceV)
		if !ok {
			panic(e.abort("invoke on %T", e.val(st, cc.Value)))
		}
		if iv.t == nil {
			e.checkPanic(st, e.c.True, "nil pointer dereference (method call on nil interface "+cc.Method.Name()+")")
		}
		fn := e.prog.LookupMethod(iv.t, cc.Method.Pkg(), cc.Method.Name())
		if fn == nil {
			panic(e.abort("no method %s on %v", cc.Method.Name(), iv.t))
		}
		return FuncV{fn: fn}, append([]Value{iv.v}, args...)
	}
	fv, ok := e.val(st, cc.Value).(FuncV)
	if !ok {
		panic(e.abort("call of %T", e.val(st, cc.Value)))
	}
	if fv.fn == nil && fv.intrinsic == "" {
		e.checkPanic(st, e.c.True, "call of nil function")
	}
	return fv, args
}

func (e *Exec) call(st *State, f *Frame, res *ssa.Call, cc *ssa.CallCommon) {
	fv, args := e.resolve(st, cc)
	var retTo ssa.Value
	if res != nil {
		retTo = res
	}
	e.invoke(st, f, fv, args, retTo, cc)
}

// invoke performs the call; for intrinsics it sets the result and advances ip.
func (e *Exec) invoke(st *State, f *Frame, fv FuncV, args []Value, retTo ssa.Value, cc *ssa.CallCommon) {
	name := fv.intrinsic
	if fv.fn != nil {
		name = fv.fn.String()
		if fv.fn.Origin() != nil {
			name = fv.fn.Origin().String()
		}
	}
	if len(e.ob.Critical) > 0 && st.tolerant == 0 {
		e.checkCritical(st, name)
	}
	if h, ok := e.lookupIntrinsic(name, fv); ok {
		r := h(e, st, fv, args, cc)
		if _, pushed := r.(pushedFrame); pushed {
			return
		}
		if _, crashed := r.(crashedFrame); crashed {
			return
		}
		if retTo != nil {
			f.env[retTo] = r
		}
		f.ip++
		return
	}
	if st.tolerant > 0 && fv.fn != nil && (len(fv.fn.Blocks) == 0 || fv.fn.Name() == "init" && fv.fn.Pkg != nil && fv.fn != f.fn) {
		// package initialisers: skip nested init() of other packages and bodiless functions
		if retTo != nil {
			f.env[retTo] = e.zero(fv.fn.Signature.Results())
			if fv.fn.Signature.Results().Len() == 1 {
				f.env[retTo] = e.zero(fv.fn.Signature.Results().At(0).Type())
			}
		}
		f.ip++
		return
	}
	if fv.fn != nil {
		if e.tryMergeCall(st, f, fv, args, retTo) {
			return
		}
		if e.ob.mergeFuncs[name] && st.tolerant == 0 && e.pure == 0 && e.inMerged == 0 {
			e.inMerged++
			defer func() { e.inMerged-- }()
			e.mergedCall(st, f, fv, args, retTo)
			return
		}
	}
	e.pushCall(st, fv, args, retTo)
}

func (e *Exec) prepareDeferred(st *State, cc *ssa.CallCommon) deferred {
	fv, args := e.resolve(st, cc)
	return deferred{fv: fv, args: args}
}

func (e *Exec) callDeferred(st *State, d deferred) {
	f := st.top()
	name := d.fv.intrinsic
	if d.fv.fn != nil {
		name = d.fv.fn.String()
		if d.fv.fn.Origin() != nil {
			name = d.fv.fn.Origin().String()
		}
	}
	if h, ok := e.lookupIntrinsic(name, d.fv); ok {
		r := h(e, st, d.fv, d.args, nil)
		if _, pushed := r.(pushedFrame); pushed {
			st.top().inDefer = true
		}
		return // stay on RunDefers (or, after a crash point, wherever the handler left the stack)
	}
	_ = f
	e.pushCall(st, d.fv, d.args, nil)
	st.top().inDefer = true
}

// ---------- maps ----------

func (e *Exec) mapObj(st *State, m MapV) *MapObj {
	return st.heap[m.obj].(*MapObj)
}

// keyEq decides (forking if needed) whether two keys are equal.
func (e *Exec) keyEq(st *State, a, b Value) bool {
	return e.decide(st, e.valEq(st, a, b))
}

func (e *Exec) mapLookup(st *State, m MapV, k Value) (Value, bool) {
	if m.obj == 0 {
		return nil, false
	}
	mo := e.mapObj(st, m)
	for _, en := range mo.entries {
		if e.keyEq(st, en.k, k) {
			return en.v, true
		}
	}
	return nil, false
}

func (e *Exec) mapUpdate(st *State, m MapV, k, v Value) {
	if m.obj == 0 {
		e.checkPanic(st, e.c.True, "assignment to entry in nil map")
	}
	mo := e.mapObj(st, m)
	for i, en := range mo.entries {
		if e.keyEq(st, en.k, k) {
			ne := append([]MapEntry(nil), mo.entries...)
			ne[i] = MapEntry{en.k, v}
			st.heap[m.obj] = &MapObj{ne}
			return
		}
	}
	ne := append(append([]MapEntry(nil), mo.entries...), MapEntry{k, v})
	st.heap[m.obj] = &MapObj{ne}
}

func (e *Exec) mapDelete(st *State, m MapV, k Value) {
	if m.obj == 0 {
		return
	}
	mo := e.mapObj(st, m)
	for i, en := range mo.entries {
		if e.keyEq(st, en.k, k) {
			ne := append([]MapEntry(nil), mo.entries[:i]...)
			ne = append(ne, mo.entries[i+1:]...)
			st.heap[m.obj] = &MapObj{ne}
			return
		}
	}
}

// ---------- range ----------

func (e *Exec) rangeInit(st *State, f *Frame, x *ssa.Range) {
	switch xv := e.val(st, x.X).(type) {
	case *StrV:
		p := e.alloc(st, &RangeIter{str: xv})
		e.setv(f, x, p)
	case MapV:
		it := &RangeIter{isMap: true, mobj: xv.obj}
		if xv.obj != 0 {
			it.keys = append([]MapEntry(nil), e.mapObj(st, xv).entries...)
		}
		p := e.alloc(st, it)
		e.setv(f, x, p)
	default:
		panic(e.abort("range over %T", xv))
	}
	f.ip++
}

func (e *Exec) rangeNext(st *State, f *Frame, x *ssa.Next) {
	p := e.val(st, x.Iter).(Ptr)
	it := st.heap[p.obj].(*RangeIter)
	tt := x.Type().(*types.Tuple)
	if x.IsString {
		if it.pos >= len(it.str.b) {
			e.setv(f, x, TupleV{[]Value{e.c.False, e.c.Const(64, 0), e.c.Const(32, 0)}})
			f.ip++
			return
		}
		r, size := e.decodeRune(st, it.str.b[it.pos:])
		ni := *it
		ni.pos += size
		e.setv(f, x, TupleV{[]Value{e.c.True, e.c.Const(64, uint64(it.pos)), r}})
		st.heap[p.obj] = &ni
		f.ip++
		return
	}
	// map: entries deleted during iteration are skipped (Go semantics allow either for added ones)
	for len(it.keys) > 0 {
		en := it.keys[0]
		ni := *it
		ni.keys = it.keys[1:]
		// still present?
		var cur Value
		present := false
		if it.mobj != 0 {
			for _, ce := range e.mapObj(st, MapV{it.mobj}).entries {
				if sameKeyIdentity(ce.k, en.k) {
					cur, present = ce.v, true
					break
				}
			}
		}
		st.heap[p.obj] = &ni
		it = &ni
		if present {
			kv := en.k
			if _, isInvalid := tt.At(1).Type().(*types.Basic); isInvalid && tt.At(1).Type().(*types.Basic).Kind() == types.Invalid {
				kv = e.c.False
			}
			vv := cur
			if b, ok := tt.At(2).Type().(*types.Basic); ok && b.Kind() == types.Invalid {
				vv = e.c.False
			}
			e.setv(f, x, TupleV{[]Value{e.c.True, kv, vv}})
			f.ip++
			return
		}
	}
	kz, vz := Value(e.c.False), Value(e.c.False)
	if b, ok := tt.At(1).Type().(*types.Basic); !ok || b.Kind() != types.Invalid {
		kz = e.zero(tt.At(1).Type())
	}
	if b, ok := tt.At(2).Type().(*types.Basic); !ok || b.Kind() != types.Invalid {
		vz = e.zero(tt.At(2).Type())
	}
	e.setv(f, x, TupleV{[]Value{e.c.False, kz, vz}})
	f.ip++
}

func sameKeyIdentity(a, b Value) bool {
	switch x := a.(type) {
	case *Term:
		y, ok := b.(*Term)
		return ok && x == y
	case *StrV:
		y, ok := b.(*StrV)
		if !ok || len(x.b) != len(y.b) {
			return false
		}
		for i := range x.b {
			if x.b[i] != y.b[i] {
				return false
			}
		}
		return true
	case Ptr:
		y, ok := b.(Ptr)
		return ok && ptrIdentical(x, y)
	case IfaceV:
		y, ok := b.(IfaceV)
		return ok && x.t == y.t && sameKeyIdentity(x.v, y.v)
	case *StructV:
		y, ok := b.(*StructV)
		if !ok {
			return false
		}
		for i := range x.f {
			if !sameKeyIdentity(x.f[i], y.f[i]) {
				return false
			}
		}
		return true
	}
	return false
}

// decodeRune follows utf8.DecodeRuneInString exactly, forking on byte classes.
func (e *Exec) decodeRune(st *State, b []*Term) (*Term, int) {
	c := e.c
	k := func(v uint64) *Term { return c.Const(8, v) }
	b0 := b[0]
	runeErr := c.Const(32, 0xFFFD)
	if e.decide(st, c.Cmp(OpUlt, b0, k(0x80))) {
		return c.Zext(32, b0), 1
	}
	in := func(x *Term, lo, hi uint64) *Term {
		return c.And(c.Cmp(OpUle, k(lo), x), c.Cmp(OpUle, x, k(hi)))
	}
	z := func(x *Term, m uint64) *Term { return c.Zext(32, c.Bin(OpBAnd, x, k(m))) }
	sh := func(x *Term, n uint64) *Term { return c.Bin(OpShl, x, c.Const(32, n)) }
	// 2-byte
	if e.decide(st, in(b0, 0xC2, 0xDF)) {
		if len(b) < 2 || !e.decide(st, in(b[1], 0x80, 0xBF)) {
			return runeErr, 1
		}
		return c.Bin(OpBOr, sh(z(b0, 0x1F), 6), z(b[1], 0x3F)), 2
	}
	// 3-byte
	if e.decide(st, in(b0, 0xE0, 0xEF)) {
		if len(b) < 3 {
			return runeErr, 1
		}
		lo, hi := uint64(0x80), uint64(0xBF)
		if e.decide(st, c.Eq(b0, k(0xE0))) {
			lo = 0xA0
		} else if e.decide(st, c.Eq(b0, k(0xED))) {
			hi = 0x9F
		}
		if !e.decide(st, in(b[1], lo, hi)) || !e.decide(st, in(b[2], 0x80, 0xBF)) {
			return runeErr, 1
		}
		return c.Bin(OpBOr, c.Bin(OpBOr, sh(z(b0, 0x0F), 12), sh(z(b[1], 0x3F), 6)), z(b[2], 0x3F)), 3
	}
	// 4-byte
	if e.decide(st, in(b0, 0xF0, 0xF4)) {
		if len(b) < 4 {
			return runeErr, 1
		}
		lo, hi := uint64(0x80), uint64(0xBF)
		if e.decide(st, c.Eq(b0, k(0xF0))) {
			lo = 0x90
		} else if e.decide(st, c.Eq(b0, k(0xF4))) {
			hi = 0x8F
		}
		if !e.decide(st, in(b[1], lo, hi)) || !e.decide(st, in(b[2], 0x80, 0xBF)) || !e.decide(st, in(b[3], 0x80, 0xBF)) {
			return runeErr, 1
		}
		return c.Bin(OpBOr, c.Bin(OpBOr, c.Bin(OpBOr, sh(z(b0, 0x07), 18), sh(z(b[1], 0x3F), 12)), sh(z(b[2], 0x3F), 6)), z(b[3], 0x3F)), 4
	}
	return runeErr, 1
}

// ---------- channels (sequential model) ----------

func (e *Exec) chanObj(st *State, cv ChanV) *ChanObj {
	return st.heap[cv.obj].(*ChanObj)
}

func (e *Exec) chanSend(st *State, f *Frame, x *ssa.Send) {
	cv := e.val(st, x.Chan).(ChanV)
	if cv.obj == 0 {
		panic(deadSignal{"send on nil channel blocks forever"})
	}
	co := e.chanObj(st, cv)
	if co.closed {
		e.checkPanic(st, e.c.True, "send on closed channel")
	}
	if len(co.q) >= co.cap {
		// would block: in the sequential model this path cannot proceed
		e.res.noteOnce("blocking channel send ends path at " + e.posStr())
		panic(deadSignal{"blocking send"})
	}
	nc := *co
	nc.q = append(append([]Value(nil), co.q...), e.val(st, x.X))
	st.heap[cv.obj] = &nc
	f.ip++
}

func (e *Exec) chanRecv(st *State, x *ssa.UnOp) Value {
	cv := e.val(st, x.X).(ChanV)
	elem := x.X.Type().Underlying().(*types.Chan).Elem()
	if cv.obj == 0 {
		panic(deadSignal{"receive on nil channel blocks forever"})
	}
	co := e.chanObj(st, cv)
	if len(co.q) == 0 {
		if co.closed {
			z := e.zero(elem)
			if x.CommaOk {
				return TupleV{[]Value{z, e.c.False}}
			}
			return z
		}
		e.res.noteOnce("blocking channel receive ends path at " + e.posStr())
		panic(deadSignal{"blocking receive"})
	}
	nc := *co
	v := co.q[0]
	nc.q = append([]Value(nil), co.q[1:]...)
	st.heap[cv.obj] = &nc
	if x.CommaOk {
		return TupleV{[]Value{v, e.c.True}}
	}
	return v
}

func (e *Exec) doSelect(st *State, f *Frame, x *ssa.Select) {
	// ready cases in order; default if none; blocking => path ends
	tt := x.Type().(*types.Tuple)
	mk := func(idx int, recvOk bool, recvVals map[int]Value) Value {
		tv := make([]Value, tt.Len())
		tv[0] = e.c.Const(64, uint64(int64(idx)))
		tv[1] = e.c.Bool(recvOk)
		ri := 2
		for i, s := range x.States {
			if s.Dir == types.RecvOnly {
				if v, ok := recvVals[i]; ok {
					tv[ri] = v
				} else {
					tv[ri] = e.zero(tt.At(ri).Type())
				}
				ri++
			}
		}
		return TupleV{tv}
	}
	for i, s := range x.States {
		cv := e.val(st, s.Chan).(ChanV)
		if cv.obj == 0 {
			continue
		}
		co := e.chanObj(st, cv)
		if s.Dir == types.SendOnly {
			if co.closed {
				e.checkPanic(st, e.c.True, "send on closed channel")
			}
			if len(co.q) < co.cap {
				nc := *co
				nc.q = append(append([]Value(nil), co.q...), e.val(st, s.Send))
				st.heap[cv.obj] = &nc
				e.setv(f, x, mk(i, false, nil))
				f.ip++
				return
			}
		} else {
			if len(co.q) > 0 {
				nc := *co
				v := co.q[0]
				nc.q = append([]Value(nil), co.q[1:]...)
				st.heap[cv.obj] = &nc
				e.setv(f, x, mk(i, true, map[int]Value{i: v}))
				f.ip++
				return
			}
			if co.closed {
				e.setv(f, x, mk(i, false, nil))
				f.ip++
				return
			}
		}
	}
	if !x.Blocking {
		e.setv(f, x, mk(-1, false, nil))
		f.ip++
		return
	}
	e.res.noteOnce("blocking select ends path at " + e.posStr())
	panic(deadSignal{"blocking select"})
}

var _ = fmt.Sprintf
