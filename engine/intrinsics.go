package main

import (
	"net/textproto"
	"os"
	"time"
	"fmt"
	"go/types"
	"strings"

	"golang.org/x/tools/go/ssa"
)

type handler func(e *Exec, st *State, fv FuncV, args []Value, cc *ssa.CallCommon) Value

// pushedFrame is returned by a handler that pushed a call frame itself.
type pushedFrame struct{}

const vpkg = "github.com/jech/galene/zzverif."

var intrinsics map[string]handler

func init() {
	intrinsics = map[string]handler{
		// ---- harness API ----
		vpkg + "U8":     func(e *Exec, st *State, fv FuncV, a []Value, cc *ssa.CallCommon) Value { return e.input(st, a[0], BV(8)) },
		vpkg + "U16":    func(e *Exec, st *State, fv FuncV, a []Value, cc *ssa.CallCommon) Value { return e.input(st, a[0], BV(16)) },
		vpkg + "U32":    func(e *Exec, st *State, fv FuncV, a []Value, cc *ssa.CallCommon) Value { return e.input(st, a[0], BV(32)) },
		vpkg + "U64":    func(e *Exec, st *State, fv FuncV, a []Value, cc *ssa.CallCommon) Value { return e.input(st, a[0], BV(64)) },
		vpkg + "Int":    func(e *Exec, st *State, fv FuncV, a []Value, cc *ssa.CallCommon) Value { return e.input(st, a[0], BV(64)) },
		vpkg + "Bool":   func(e *Exec, st *State, fv FuncV, a []Value, cc *ssa.CallCommon) Value { return e.input(st, a[0], BoolSort) },
		vpkg + "Bytes":  hBytes,
		vpkg + "String": hString,
		vpkg + "Idx": func(e *Exec, st *State, fv FuncV, a []Value, cc *ssa.CallCommon) Value {
			i := e.concretize(st, a[1].(*Term), "Idx")
			return e.strConst(fmt.Sprintf("%s[%d]", e.cstr(a[0]), int64(i)))
		},
		vpkg + "Choice":     hChoice,
		vpkg + "Assume":     hAssume,
		vpkg + "Assert":     hAssert,
		vpkg + "Reach":      hReach,
		vpkg + "Unwind":     func(e *Exec, st *State, fv FuncV, a []Value, cc *ssa.CallCommon) Value { st.unwind = int(e.concretize(st, a[0].(*Term), "Unwind")); return nil },
		vpkg + "SplitLimit": func(e *Exec, st *State, fv FuncV, a []Value, cc *ssa.CallCommon) Value { st.splitLimit = int(e.concretize(st, a[0].(*Term), "SplitLimit")); return nil },
		vpkg + "And":        func(e *Exec, st *State, fv FuncV, a []Value, cc *ssa.CallCommon) Value { return e.c.And(a[0].(*Term), a[1].(*Term)) },
		vpkg + "And3":       func(e *Exec, st *State, fv FuncV, a []Value, cc *ssa.CallCommon) Value { return e.c.AndN(a[0].(*Term), a[1].(*Term), a[2].(*Term)) },
		vpkg + "Or":         func(e *Exec, st *State, fv FuncV, a []Value, cc *ssa.CallCommon) Value { return e.c.Or(a[0].(*Term), a[1].(*Term)) },
		vpkg + "Or3":        func(e *Exec, st *State, fv FuncV, a []Value, cc *ssa.CallCommon) Value { return e.c.Or(a[0].(*Term), e.c.Or(a[1].(*Term), a[2].(*Term))) },
		vpkg + "Implies":    func(e *Exec, st *State, fv FuncV, a []Value, cc *ssa.CallCommon) Value { return e.c.Implies(a[0].(*Term), a[1].(*Term)) },
		vpkg + "Iff":        func(e *Exec, st *State, fv FuncV, a []Value, cc *ssa.CallCommon) Value { return e.c.Eq(a[0].(*Term), a[1].(*Term)) },
		vpkg + "IteU8":      hIte,
		vpkg + "IteU16":     hIte,
		vpkg + "IteU32":     hIte,
		vpkg + "IteU64":     hIte,
		vpkg + "IteInt":     hIte,
		vpkg + "NewGhost":   hNewGhost,
		"(*" + vpkg[:len(vpkg)-1] + ".Ghost).Get": hGhostGet,
		"(*" + vpkg[:len(vpkg)-1] + ".Ghost).Set": hGhostSet,
		vpkg + "Concrete": func(e *Exec, st *State, fv FuncV, a []Value, cc *ssa.CallCommon) Value {
			return e.c.Const(64, e.concretize(st, a[0].(*Term), "v.Concrete"))
		},
		vpkg + "crashBegin": func(e *Exec, st *State, fv FuncV, a []Value, cc *ssa.CallCommon) Value {
			g := st.fs()
			g.armed, g.crashed, g.ops = true, false, 0
			g.crashAt = int(int64(e.concretize(st, a[0].(*Term), "crash point index")))
			return nil
		},
		vpkg + "crashEnd": func(e *Exec, st *State, fv FuncV, a []Value, cc *ssa.CallCommon) Value {
			g := st.fs()
			g.armed = false
			return e.c.Bool(g.crashed)
		},
		vpkg + "FSOps": func(e *Exec, st *State, fv FuncV, a []Value, cc *ssa.CallCommon) Value {
			return e.c.Const(64, uint64(st.fs().ops))
		},
		vpkg + "Note": func(e *Exec, st *State, fv FuncV, a []Value, cc *ssa.CallCommon) Value { return nil },

		// ---- builtins ----
		"builtin:len":     bLen,
		"builtin:cap":     bCap,
		"builtin:append":  bAppend,
		"builtin:copy":    bCopy,
		"builtin:delete":  func(e *Exec, st *State, fv FuncV, a []Value, cc *ssa.CallCommon) Value { e.mapDelete(st, a[0].(MapV), a[1]); return nil },
		"builtin:print":   nop,
		"builtin:println": nop,
		"builtin:recover": func(e *Exec, st *State, fv FuncV, a []Value, cc *ssa.CallCommon) Value { return IfaceV{} },
		"builtin:min":     bMinMax,
		"builtin:max":     bMinMax,
		"builtin:close": func(e *Exec, st *State, fv FuncV, a []Value, cc *ssa.CallCommon) Value {
			cv := a[0].(ChanV)
			if cv.obj == 0 {
				e.checkPanic(st, e.c.True, "close of nil channel")
			}
			co := e.chanObj(st, cv)
			if co.closed {
				e.checkPanic(st, e.c.True, "close of closed channel")
			}
			nc := *co
			nc.closed = true
			st.heap[cv.obj] = &nc
			return nil
		},
		"builtin:clear": func(e *Exec, st *State, fv FuncV, a []Value, cc *ssa.CallCommon) Value {
			if m, ok := a[0].(MapV); ok {
				if m.obj != 0 {
					st.heap[m.obj] = &MapObj{}
				}
				return nil
			}
			if sl, ok := a[0].(SliceV); ok {
				n := int(e.concretize(st, sl.len, "clear length"))
				if n > 0 {
					arr := e.loadArr(st, sl)
					el := append([]Value(nil), arr.e...)
					z := e.zero(cc.Args[0].Type().Underlying().(*types.Slice).Elem())
					for i := 0; i < n; i++ {
						el[sl.off+i] = z
					}
					e.store(st, sl.base, &ArrayV{el})
				}
				return nil
			}
			panic(e.abort("clear on %T", a[0]))
		},
		"builtin:ssa:wrapnilchk": func(e *Exec, st *State, fv FuncV, a []Value, cc *ssa.CallCommon) Value {
			if p, ok := a[0].(Ptr); ok && p.IsNil() {
				e.checkPanic(st, e.c.True, "nil pointer dereference (value method on nil pointer)")
			}
			return a[0]
		},

		// ---- sync ----
		"(*sync.Mutex).Lock":      hLock,
		"(*sync.Mutex).Unlock":    hUnlock,
		"(*sync.RWMutex).Lock":    hLock,
		"(*sync.RWMutex).Unlock":  hUnlock,
		"(*sync.RWMutex).RLock":   hLock,
		"(*sync.RWMutex).RUnlock": hUnlock,
		"(*sync.Mutex).TryLock": func(e *Exec, st *State, fv FuncV, a []Value, cc *ssa.CallCommon) Value {
			k := ptrKey(a[0].(Ptr))
			if st.held[k] {
				return e.c.False
			}
			st.held[k] = true
			return e.c.True
		},
		"(*sync.Pool).Get": hPoolGet,
		"(*sync.Pool).Put": nop,
		"(*sync.Once).Do":  hOnceDo,
		"(*sync.WaitGroup).Add":  nop,
		"(*sync.WaitGroup).Done": nop,
		"(*sync.WaitGroup).Wait": nop,

		// ---- runtime-ish ----
		"runtime.KeepAlive":    nop,
		"runtime.SetFinalizer": nop,
		"runtime.Gosched":      nop,
		"time.Sleep":           nop,
		"time.Now":             hTimeNow,
		"(net/http.Header).Get": hHeaderGet,
		"(net/http.Header).Set": hHeaderSet,
		"(net/http.Header).Add": hHeaderSet,
		"(net/http.Header).Del": hHeaderSet,
		"net/http.Error":        hHTTPError,
		"net/http.NotFound":     hHTTPError,
		"net/http.Redirect":     hHTTPError,
		"(time.Time).Format": func(e *Exec, st *State, fv FuncV, a []Value, cc *ssa.CallCommon) Value {
			e.res.noteOnce("placeholder: Time.Format returns \"<time>\"")
			return e.strConst("<time>")
		},
		"(*sync/atomic.Value).Load": func(e *Exec, st *State, fv FuncV, a []Value, cc *ssa.CallCommon) Value {
			return e.load(st, e.nonNil(st, a[0]).extend(Sel{k: 0}))
		},
		"(*sync/atomic.Value).Store": func(e *Exec, st *State, fv FuncV, a []Value, cc *ssa.CallCommon) Value {
			iv := a[1].(IfaceV)
			if iv.t == nil {
				e.checkPanic(st, e.c.True, "sync/atomic: store of nil value into Value")
			}
			e.store(st, e.nonNil(st, a[0]).extend(Sel{k: 0}), iv)
			return nil
		},
		"sort.Slice":       hSortSlice,
		"sort.SliceStable": hSortSlice,
		"maps.clone": func(e *Exec, st *State, fv FuncV, a []Value, cc *ssa.CallCommon) Value {
			iv := a[0].(IfaceV)
			m := iv.v.(MapV)
			if m.obj == 0 {
				return iv
			}
			p := e.alloc(st, &MapObj{append([]MapEntry(nil), e.mapObj(st, m).entries...)})
			return IfaceV{t: iv.t, v: MapV{obj: p.obj}}
		},
		"time.Parse": hTimeParse,
		"crypto/rand.Read": func(e *Exec, st *State, fv FuncV, a []Value, cc *ssa.CallCommon) Value {
			s := a[0].(SliceV)
			n := int(e.concretize(st, s.len, "rand.Read length"))
			inInit := e.buildingSnap
			for _, f := range st.frames {
				if f.fn != nil && (f.fn.Name() == "init" || strings.HasPrefix(f.fn.Name(), "init#")) {
					inInit = true
				}
			}
			if inInit {
				// process-wide secrets drawn in package initialisers (the WHIP id cipher
				// key): a fixed key; no property here depends on its value
				for i := 0; i < n; i++ {
					e.store(st, e.sliceElemPtr(s, e.c.Const(64, uint64(i))), e.c.Const(8, uint64(0x5a+7*i)&0xff))
				}
				e.res.noteOnce("stub: crypto/rand.Read inside a package initialiser yields fixed bytes (the WHIP id-obfuscation key is concrete)")
				return TupleV{[]Value{e.c.Const(64, uint64(n)), IfaceV{}}}
			}
			for i := 0; i < n; i++ {
				st.stubCalls++
				e.store(st, e.sliceElemPtr(s, e.c.Const(64, uint64(i))), e.c.Fresh("rand", BV(8)))
			}
			e.res.noteOnce("stub(contract): crypto/rand.Read fills the buffer with arbitrary bytes")
			return TupleV{[]Value{e.c.Const(64, uint64(n)), IfaceV{}}}
		},

		// ---- logging / formatting (no-ops that still evaluated their arguments) ----
		"log.Printf":   nop,
		"log.Println":  nop,
		"log.Print":    nop,
		"fmt.Printf":   nopZero,
		"fmt.Println":  nopZero,
		"fmt.Fprintf":  nopZero,
		"fmt.Fprintln": nopZero,
		"fmt.Fprint":   nopZero,
		"fmt.Sprintf":  hSprintf,
		"fmt.Sprint":   hSprintf,
		"fmt.Sprintln": hSprintf,
		"fmt.Errorf":   hErrorf,
		"errors.Is":    hErrorsIs,
		"errors.As":    hErrorsAs,

		// ---- math/bits ----
		"math/bits.TrailingZeros8":  hTZ,
		"math/bits.TrailingZeros16": hTZ,
		"math/bits.TrailingZeros32": hTZ,
		"math/bits.TrailingZeros64": hTZ,
		"math/bits.TrailingZeros":   hTZ,
		"math/bits.LeadingZeros8":   hLZ,
		"math/bits.LeadingZeros16":  hLZ,
		"math/bits.LeadingZeros32":  hLZ,
		"math/bits.LeadingZeros64":  hLZ,
		"math/bits.LeadingZeros":    hLZ,
		"math/bits.Len8":            hLen,
		"math/bits.Len16":           hLen,
		"math/bits.Len32":           hLen,
		"math/bits.Len64":           hLen,
		"math/bits.Len":             hLen,
		"math/bits.OnesCount8":      hOnes,
		"math/bits.OnesCount16":     hOnes,
		"math/bits.OnesCount32":     hOnes,
		"math/bits.OnesCount64":     hOnes,
		"math/bits.OnesCount":       hOnes,

		// ---- internal/bytealg (assembly in the real build) ----
		"internal/bytealg.IndexByteString": hIndexByte,
		"internal/bytealg.IndexByte":       hIndexByte,
		"internal/bytealg.CountString":     hCountByte,
		"internal/bytealg.Count":           hCountByte,
		"internal/bytealg.Equal":           hBytesEqual,
		"internal/bytealg.Compare":         hBytesCompare,
		"internal/bytealg.CompareString":   hBytesCompare,
		"internal/stringslite.Index":       nil, // executed from SSA
		"strings.IndexByte":                hIndexByte,
		"bytes.IndexByte":                  hIndexByte,
		"internal/bytealg.MakeNoZero": func(e *Exec, st *State, fv FuncV, a []Value, cc *ssa.CallCommon) Value {
			n := int(e.concretize(st, a[0].(*Term), "MakeNoZero"))
			return e.newSlice(st, types.Typ[types.Uint8], n, n)
		},
		"internal/abi.NoEscape": func(e *Exec, st *State, fv FuncV, a []Value, cc *ssa.CallCommon) Value { return a[0] },
		"builtin:SliceData": func(e *Exec, st *State, fv FuncV, a []Value, cc *ssa.CallCommon) Value {
			s := a[0].(SliceV)
			if s.base.IsNil() {
				return Ptr{}
			}
			return s.base.extend(Sel{k: s.off})
		},
		"builtin:String": func(e *Exec, st *State, fv FuncV, a []Value, cc *ssa.CallCommon) Value {
			p := a[0].(Ptr)
			n := int(e.concretize(st, a[1].(*Term), "unsafe.String length"))
			if n == 0 {
				return &StrV{}
			}
			if p.IsNil() || len(p.path) == 0 || p.path[len(p.path)-1].sym != nil {
				panic(e.abort("unsafe.String on an unsupported pointer"))
			}
			k := p.path[len(p.path)-1].k
			arr := e.load(st, Ptr{p.obj, p.path[:len(p.path)-1]}).(*ArrayV)
			bs := make([]*Term, n)
			for i := 0; i < n; i++ {
				bs[i] = arr.e[k+i].(*Term)
			}
			return &StrV{bs}
		},
		"builtin:StringData": func(e *Exec, st *State, fv FuncV, a []Value, cc *ssa.CallCommon) Value {
			panic(e.abort("unsafe.StringData"))
		},
		"unsafe.String": func(e *Exec, st *State, fv FuncV, a []Value, cc *ssa.CallCommon) Value {
			panic(e.abort("unsafe.String"))
		},
	}
	// sync/atomic functions
	for _, t := range []string{"Int32", "Int64", "Uint32", "Uint64", "Uintptr", "Pointer"} {
		intrinsics["sync/atomic.Load"+t] = func(e *Exec, st *State, fv FuncV, a []Value, cc *ssa.CallCommon) Value {
			return e.load(st, e.nonNil(st, a[0]))
		}
		intrinsics["sync/atomic.Store"+t] = func(e *Exec, st *State, fv FuncV, a []Value, cc *ssa.CallCommon) Value {
			e.store(st, e.nonNil(st, a[0]), a[1])
			return nil
		}
		intrinsics["sync/atomic.Swap"+t] = func(e *Exec, st *State, fv FuncV, a []Value, cc *ssa.CallCommon) Value {
			p := e.nonNil(st, a[0])
			old := e.load(st, p)
			e.store(st, p, a[1])
			return old
		}
		intrinsics["sync/atomic.Add"+t] = func(e *Exec, st *State, fv FuncV, a []Value, cc *ssa.CallCommon) Value {
			p := e.nonNil(st, a[0])
			nv := e.c.Bin(OpAdd, e.load(st, p).(*Term), a[1].(*Term))
			e.store(st, p, nv)
			return nv
		}
		intrinsics["sync/atomic.And"+t] = func(e *Exec, st *State, fv FuncV, a []Value, cc *ssa.CallCommon) Value {
			p := e.nonNil(st, a[0])
			old := e.load(st, p).(*Term)
			e.store(st, p, e.c.Bin(OpBAnd, old, a[1].(*Term)))
			return old
		}
		intrinsics["sync/atomic.Or"+t] = func(e *Exec, st *State, fv FuncV, a []Value, cc *ssa.CallCommon) Value {
			p := e.nonNil(st, a[0])
			old := e.load(st, p).(*Term)
			e.store(st, p, e.c.Bin(OpBOr, old, a[1].(*Term)))
			return old
		}
		intrinsics["sync/atomic.CompareAndSwap"+t] = func(e *Exec, st *State, fv FuncV, a []Value, cc *ssa.CallCommon) Value {
			p := e.nonNil(st, a[0])
			old := e.load(st, p)
			eq := e.valEq(st, old, a[1])
			m, ok := e.mergeV(eq, a[2], old)
			if !ok {
				if e.decide(st, eq) {
					e.store(st, p, a[2])
					return e.c.True
				}
				return e.c.False
			}
			e.store(st, p, m)
			return eq
		}
	}
}

func nop(e *Exec, st *State, fv FuncV, a []Value, cc *ssa.CallCommon) Value { return nil }

// nopZero: returns zero values of the declared results (e.g. (n int, err error))
func nopZero(e *Exec, st *State, fv FuncV, a []Value, cc *ssa.CallCommon) Value {
	return e.zeroResults(fv.fn.Signature)
}

func (e *Exec) zeroResults(sig *types.Signature) Value {
	switch sig.Results().Len() {
	case 0:
		return nil
	case 1:
		return e.zero(sig.Results().At(0).Type())
	}
	return e.zero(sig.Results())
}

func (e *Exec) lookupIntrinsic(name string, fv FuncV) (handler, bool) {
	if h, ok := e.ob.stubs[name]; ok {
		return h, true
	}
	h, ok := intrinsics[name]
	if ok && h != nil {
		return h, true
	}
	if e.ob.GhostFS {
		if h, ok := ghostIntrinsics[name]; ok {
			return h, true
		}
	}
	return nil, false
}

func (e *Exec) nonNil(st *State, v Value) Ptr {
	p := v.(Ptr)
	if p.IsNil() {
		e.checkPanic(st, e.c.True, "nil pointer dereference")
	}
	return p
}

func (e *Exec) cstr(v Value) string {
	s, ok := v.(*StrV)
	if !ok {
		panic(e.abort("expected string, got %T", v))
	}
	cs, ok := strConcrete(s)
	if !ok {
		panic(e.abort("expected concrete string"))
	}
	return cs
}

func ptrKey(p Ptr) string {
	var sb strings.Builder
	fmt.Fprintf(&sb, "%d", p.obj)
	for _, s := range p.path {
		if s.sym != nil {
			fmt.Fprintf(&sb, ".t%d", s.sym.id)
		} else {
			fmt.Fprintf(&sb, ".%d", s.k)
		}
	}
	return sb.String()
}

// ---------- harness API ----------

func (e *Exec) input(st *State, nameV Value, s Sort) *Term {
	name := e.cstr(nameV)
	t := e.c.Var(name, s)
	e.inputs[name] = t
	return t
}

func hBytes(e *Exec, st *State, fv FuncV, a []Value, cc *ssa.CallCommon) Value {
	name := e.cstr(a[0])
	n := int(e.concretize(st, a[1].(*Term), "Bytes length"))
	el := make([]Value, n)
	for i := range el {
		nm := fmt.Sprintf("%s[%d]", name, i)
		t := e.c.Var(nm, BV(8))
		e.inputs[nm] = t
		el[i] = t
	}
	p := e.alloc(st, &ArrayV{el})
	return SliceV{base: p, len: e.c.Const(64, uint64(n)), cap: n}
}

func hString(e *Exec, st *State, fv FuncV, a []Value, cc *ssa.CallCommon) Value {
	name := e.cstr(a[0])
	n := int(e.concretize(st, a[1].(*Term), "String length"))
	bs := make([]*Term, n)
	for i := range bs {
		nm := fmt.Sprintf("%s[%d]", name, i)
		t := e.c.Var(nm, BV(8))
		e.inputs[nm] = t
		bs[i] = t
	}
	return &StrV{bs}
}

func hChoice(e *Exec, st *State, fv FuncV, a []Value, cc *ssa.CallCommon) Value {
	n := int(e.concretize(st, a[1].(*Term), "Choice n"))
	// the k-th Choice call on this path
	k := st.choicePos
	if k < len(st.choices) {
		st.choicePos++
		return e.c.Const(64, uint64(st.choices[k]))
	}
	if k < len(e.preset) {
		st.choices = append(st.choices, e.preset[k])
		st.choicePos++
		return e.c.Const(64, uint64(e.preset[k]))
	}
	if n <= 1 {
		st.choices = append(st.choices, 0)
		st.choicePos++
		return e.c.Const(64, 0)
	}
	panic(choiceSignal{n})
}

func hAssume(e *Exec, st *State, fv FuncV, a []Value, cc *ssa.CallCommon) Value {
	c := a[0].(*Term)
	if c.IsTrue() {
		return nil
	}
	if c.IsFalse() {
		panic(deadSignal{"assume false"})
	}
	if v, ok := st.decided.get(c.id); ok && v == 1 {
		return nil
	}
	if st.model != nil {
		if v, ok := evalTerm(c, st.model); ok && v == 1 {
			st.pc = append(st.pc, c)
			st.decided.m[c.id] = 1
			return nil
		}
	}
	r, m := e.feasibleM(st, c)
	if r == Unsat {
		panic(deadSignal{"assumption infeasible"})
	}
	if r == Unknown {
		st.imprecise = true
	}
	st.pc = append(st.pc, c)
	st.model = m
	st.decided.m[c.id] = 1
	return nil
}

func hAssert(e *Exec, st *State, fv FuncV, a []Value, cc *ssa.CallCommon) Value {
	c := a[0].(*Term)
	msg := e.cstr(a[1])
	e.checkAssert(st, c, msg)
	return nil
}

func (e *Exec) checkAssert(st *State, c *Term, msg string) {
	e.res.Asserts++
	if c.IsTrue() {
		e.res.AssertsTrivial++
		return
	}
	if v, ok := st.decided.get(c.id); ok && v == 1 {
		return
	}
	neg := e.c.Not(c)
	if neg.IsTrue() {
		// constant-false assertion: any model of the path is a counterexample
		if r0, m0 := e.sol.Check(st.pc, nil, e.wantModel()); r0 == Sat {
			e.res.fail(Failure{Kind: "assert", Msg: msg, Pos: e.posStr(), Model: m0, Choices: append([]int(nil), st.choices...), Stack: e.stackStrs(st)})
		}
		panic(deadSignal{"assertion always fails"})
	}
	tq := time.Now()
	r, m := e.sol.Check(st.pc, neg, e.wantModel())
	e.res.Verdicts++
	if os.Getenv("GOSMT_PROFILE") != "" {
		e.res.note(fmt.Sprintf("profile: assert %q %.0fms-bucket", msg, float64(int(time.Since(tq).Milliseconds()/50)*50)))
	}
	if r == Unknown {
		// portfolio on the standalone query
		q := DumpQuery(st.pc, neg, "", nil)
		pr, who, err := Portfolio(q, e.cfg.VerdictTimeoutS, false)
		e.sol.Stats.Portfolio++
		if err != nil {
			e.res.inconclusive("assert %q: %v", msg, err)
			return
		}
		if pr == Unknown {
			e.res.inconclusive("assert %q at %s: all solvers unknown/timeout", msg, e.posStr())
			e.saveQuery(q, "unknown")
			return
		}
		e.sol.Stats.Winners[who]++
		r = pr
		if r == Sat {
			// need a model: retry the incremental solver with a long timeout is pointless; get it from z3 one-shot
			m = e.modelOneShot(st.pc, neg)
		}
	} else {
		e.sol.Stats.Winners["z3-inc"]++
		if e.cfg.CrossCheckEvery > 0 && e.res.Verdicts%e.cfg.CrossCheckEvery == 0 && e.crossDone < 12 {
			e.crossDone++
			q := DumpQuery(st.pc, neg, "", nil)
			pr, who, err := Portfolio(q, e.cfg.CrossTimeoutS, true)
			if err != nil {
				e.res.inconclusive("cross-check: %v", err)
			} else if pr != Unknown && pr != r {
				e.res.inconclusive("cross-check disagreement on assert %q: z3-inc %v vs %s %v", msg, r, who, pr)
			} else if pr != Unknown {
				e.sol.Stats.CrossOK++
			}
		}
	}
	if r == Sat {
		e.res.fail(Failure{Kind: "assert", Msg: msg, Pos: e.posStr(), Model: m, Choices: append([]int(nil), st.choices...), Stack: e.stackStrs(st)})
		// continue under the assumption that it held, to look for independent failures
		if e.feasible(st, c) == Unsat {
			panic(deadSignal{"assertion always fails"})
		}
		e.extendPC(st, c)
	} else if r == Unsat && e.ob.Lemmas {
		// a proven assertion is a lemma for the rest of the path
		st.pc = append(st.pc, c)
	}
	st.decided.m[c.id] = 1
}

func hReach(e *Exec, st *State, fv FuncV, a []Value, cc *ssa.CallCommon) Value {
	label := e.cstr(a[0])
	if e.res.Reached[label] {
		return nil
	}
	r, _ := e.sol.Check(st.pc, nil, nil)
	if r == Sat {
		e.res.Reached[label] = true
	}
	return nil
}

func hIte(e *Exec, st *State, fv FuncV, a []Value, cc *ssa.CallCommon) Value {
	return e.c.Ite(a[0].(*Term), a[1].(*Term), a[2].(*Term))
}

func hNewGhost(e *Exec, st *State, fv FuncV, a []Value, cc *ssa.CallCommon) Value {
	name := e.cstr(a[0])
	iw := int(e.concretize(st, a[1].(*Term), "ghost index width"))
	w := int(e.concretize(st, a[2].(*Term), "ghost value width"))
	arr := e.c.Var("ghost."+name, Sort{w: w, iw: iw})
	p := e.alloc(st, &GhostArr{name: name, arr: arr, iw: iw, w: w})
	return p
}

func hGhostGet(e *Exec, st *State, fv FuncV, a []Value, cc *ssa.CallCommon) Value {
	p := a[0].(Ptr)
	g := st.heap[p.obj].(*GhostArr)
	idx := e.c.Extract(g.iw-1, 0, a[1].(*Term))
	// record the read of the INITIAL array at this index for model extraction
	a0 := e.c.Var("ghost."+g.name, Sort{w: g.w, iw: g.iw})
	k := fmt.Sprintf("ghost|%s|%d", g.name, idx.id)
	e.ghostSel[k+"|i"] = idx
	e.ghostSel[k+"|v"] = e.c.Select(a0, idx)
	return e.c.Zext(64, e.c.Select(g.arr, idx))
}

func hGhostSet(e *Exec, st *State, fv FuncV, a []Value, cc *ssa.CallCommon) Value {
	p := a[0].(Ptr)
	g := st.heap[p.obj].(*GhostArr)
	idx := e.c.Extract(g.iw-1, 0, a[1].(*Term))
	val := e.c.Extract(g.w-1, 0, a[2].(*Term))
	ng := *g
	ng.arr = e.c.Store(g.arr, idx, val)
	st.heap[p.obj] = &ng
	return nil
}

// ---------- builtins ----------

func bLen(e *Exec, st *State, fv FuncV, a []Value, cc *ssa.CallCommon) Value {
	switch x := a[0].(type) {
	case *StrV:
		return e.c.Const(64, uint64(len(x.b)))
	case SliceV:
		return x.len
	case MapV:
		if x.obj == 0 {
			return e.c.Const(64, 0)
		}
		return e.c.Const(64, uint64(len(e.mapObj(st, x).entries)))
	case ChanV:
		if x.obj == 0 {
			return e.c.Const(64, 0)
		}
		return e.c.Const(64, uint64(len(e.chanObj(st, x).q)))
	case *ArrayV:
		return e.c.Const(64, uint64(len(x.e)))
	}
	panic(e.abort("len of %T", a[0]))
}

func bCap(e *Exec, st *State, fv FuncV, a []Value, cc *ssa.CallCommon) Value {
	switch x := a[0].(type) {
	case SliceV:
		return e.c.Const(64, uint64(x.cap))
	case ChanV:
		if x.obj == 0 {
			return e.c.Const(64, 0)
		}
		return e.c.Const(64, uint64(e.chanObj(st, x).cap))
	}
	panic(e.abort("cap of %T", a[0]))
}

// loadArr returns the backing array of a slice.
func (e *Exec) loadArr(st *State, s SliceV) *ArrayV {
	if s.base.IsNil() {
		return &ArrayV{}
	}
	return e.load(st, s.base).(*ArrayV)
}

func bAppend(e *Exec, st *State, fv FuncV, a []Value, cc *ssa.CallCommon) Value {
	s := a[0].(SliceV)
	var add []Value
	switch t := a[1].(type) {
	case SliceV:
		n := int(e.concretize(st, t.len, "append: length of appended slice"))
		if n > 0 {
			arr := e.loadArr(st, t)
			add = append(add, arr.e[t.off:t.off+n]...)
		}
	case *StrV:
		for _, b := range t.b {
			add = append(add, b)
		}
	default:
		panic(e.abort("append of %T", a[1]))
	}
	if len(add) == 0 {
		return s
	}
	n1 := int(e.concretize(st, s.len, "append: length of slice"))
	if n1+len(add) <= s.cap {
		arr := e.loadArr(st, s)
		el := append([]Value(nil), arr.e...)
		copy(el[s.off+n1:], add)
		e.store(st, s.base, &ArrayV{el})
		return SliceV{base: s.base, off: s.off, len: e.c.Const(64, uint64(n1+len(add))), cap: s.cap}
	}
	ncap := 2 * s.cap
	if ncap < n1+len(add) {
		ncap = n1 + len(add)
	}
	el := make([]Value, ncap)
	if n1 > 0 {
		arr := e.loadArr(st, s)
		copy(el, arr.e[s.off:s.off+n1])
	}
	copy(el[n1:], add)
	var elemT types.Type
	if cc != nil {
		elemT = cc.Args[0].Type().Underlying().(*types.Slice).Elem()
	}
	if ncap > n1+len(add) {
		z := e.zero(elemT)
		for i := n1 + len(add); i < ncap; i++ {
			el[i] = z
		}
	}
	p := e.alloc(st, &ArrayV{el})
	return SliceV{base: p, off: 0, len: e.c.Const(64, uint64(n1+len(add))), cap: ncap}
}

func bCopy(e *Exec, st *State, fv FuncV, a []Value, cc *ssa.CallCommon) Value {
	dst := a[0].(SliceV)
	var src []Value
	var srcLen *Term
	switch t := a[1].(type) {
	case SliceV:
		srcLen = t.len
		if !t.base.IsNil() {
			arr := e.loadArr(st, t)
			src = arr.e[t.off : t.off+t.cap]
		}
	case *StrV:
		srcLen = e.c.Const(64, uint64(len(t.b)))
		for _, b := range t.b {
			src = append(src, b)
		}
	default:
		panic(e.abort("copy from %T", a[1]))
	}
	// n = min(len(dst), len(src))
	n := e.c.Ite(e.c.Cmp(OpSlt, dst.len, srcLen), dst.len, srcLen)
	if dst.base.IsNil() || len(src) == 0 {
		return n
	}
	if n.IsConst() && n.val == 0 {
		return n
	}
	arr := e.loadArr(st, dst)
	el := append([]Value(nil), arr.e...)
	upper := dst.cap
	if len(src) < upper {
		upper = len(src)
	}
	if n.IsConst() {
		copy(el[dst.off:dst.off+int(n.val)], src[:n.val])
	} else {
		for k := 0; k < upper; k++ {
			m, ok := e.mergeV(e.c.Cmp(OpSlt, e.c.Const(64, uint64(k)), n), src[k], el[dst.off+k])
			if !ok {
				nn := int(e.concretize(st, n, "copy length"))
				copy(el[dst.off:dst.off+nn], src[:nn])
				break
			}
			el[dst.off+k] = m
		}
	}
	e.store(st, dst.base, &ArrayV{el})
	return n
}

func bMinMax(e *Exec, st *State, fv FuncV, a []Value, cc *ssa.CallCommon) Value {
	isMin := fv.intrinsic == "builtin:min"
	_, signed, ok := isInt(cc.Args[0].Type())
	if !ok {
		panic(e.abort("min/max on non-integers"))
	}
	r := a[0].(*Term)
	for _, v := range a[1:] {
		t := v.(*Term)
		var lt *Term
		if signed {
			lt = e.c.Cmp(OpSlt, t, r)
		} else {
			lt = e.c.Cmp(OpUlt, t, r)
		}
		if isMin {
			r = e.c.Ite(lt, t, r)
		} else {
			r = e.c.Ite(lt, r, t)
		}
	}
	return r
}

// ---------- sync ----------

func hLock(e *Exec, st *State, fv FuncV, a []Value, cc *ssa.CallCommon) Value {
	p := e.nonNil(st, a[0])
	k := ptrKey(p)
	if st.held[k] {
		e.res.fail(Failure{Kind: "deadlock", Msg: "mutex locked while already held by the same goroutine", Pos: e.posStr(), Choices: append([]int(nil), st.choices...), Stack: e.stackStrs(st)})
		panic(deadSignal{"self-deadlock"})
	}
	for h := range st.held {
		if st.held[h] {
			e.res.lockOrder(st.heldNames[h], e.mutexName(st, p, cc))
		}
	}
	if len(e.ob.SingleSection) > 0 && cc != nil && len(cc.Args) > 0 && !e.inHarnessCode(st.top()) {
		if fa, ok := cc.Args[0].(*ssa.FieldAddr); ok {
			if pt, ok := fa.X.Type().Underlying().(*types.Pointer); ok {
				if stt, ok := pt.Elem().Underlying().(*types.Struct); ok {
					name := typeFullName(pt.Elem()) + "." + stt.Field(fa.Field).Name()
					for _, want := range e.ob.SingleSection {
						if want == name {
							if st.lockCounts == nil {
								st.lockCounts = map[string]int{}
							}
							st.lockCounts[k]++
							if st.lockCounts[k] == 2 {
								msg := "critical section split: " + name + " is acquired a second time within one operation (the decision and the update are not atomic)"
								dup := false
								for _, o := range e.res.Failures {
									if o.Kind == "race" && o.Msg == msg {
										dup = true
									}
								}
								if !dup {
									e.res.fail(Failure{Kind: "race", Msg: msg, Pos: e.posStr(), Model: e.pathModel(st), Choices: append([]int(nil), st.choices...), Stack: e.stackStrs(st)})
								}
							}
						}
					}
				}
			}
		}
	}
	st.held[k] = true
	if st.heldNames == nil {
		st.heldNames = map[string]string{}
	}
	st.heldNames[k] = e.mutexName(st, p, cc)
	if len(e.ob.Critical) > 0 {
		n := make(map[string]int, len(st.lockEpochs)+1)
		for kk, vv := range st.lockEpochs {
			n[kk] = vv
		}
		n[st.heldNames[k]]++
		st.lockEpochs = n
	}
	return nil
}

func hUnlock(e *Exec, st *State, fv FuncV, a []Value, cc *ssa.CallCommon) Value {
	p := e.nonNil(st, a[0])
	k := ptrKey(p)
	if !st.held[k] {
		e.checkPanic(st, e.c.True, "sync: unlock of unlocked mutex")
	}
	delete(st.held, k)
	return nil
}

// mutexName abstracts a mutex to its owner type and field ("pkg.Type.field"),
// or to the package-level variable that holds it.
func (e *Exec) mutexName(st *State, p Ptr, cc *ssa.CallCommon) string {
	if cc != nil && len(cc.Args) > 0 {
		if fa, ok := cc.Args[0].(*ssa.FieldAddr); ok {
			if pt, ok := fa.X.Type().Underlying().(*types.Pointer); ok {
				if stt, ok := pt.Elem().Underlying().(*types.Struct); ok {
					owner := typeFullName(pt.Elem())
					if g, isG := fa.X.(*ssa.Global); isG {
						owner = g.Pkg.Pkg.Path() + "." + g.Name()
					}
					return owner + "." + stt.Field(fa.Field).Name()
				}
			}
		}
	}
	return fmt.Sprintf("obj%d", p.obj)
}

func hPoolGet(e *Exec, st *State, fv FuncV, a []Value, cc *ssa.CallCommon) Value {
	p := e.nonNil(st, a[0])
	pool := e.load(st, p).(*StructV)
	// field "New" is the last field of sync.Pool
	newf := pool.f[len(pool.f)-1].(FuncV)
	if newf.fn == nil {
		return IfaceV{}
	}
	f := st.top()
	var retTo ssa.Value
	if c, ok := f.block.Instrs[f.ip].(*ssa.Call); ok {
		retTo = c
	}
	e.pushCall(st, newf, nil, retTo)
	return pushedFrame{}
}

func hOnceDo(e *Exec, st *State, fv FuncV, a []Value, cc *ssa.CallCommon) Value {
	p := e.nonNil(st, a[0])
	k := "once:" + ptrKey(p)
	if st.held[k] {
		return nil
	}
	st.held[k] = true
	e.pushCall(st, a[1].(FuncV), nil, nil)
	return pushedFrame{}
}

// ---------- fmt / errors ----------

func hSprintf(e *Exec, st *State, fv FuncV, a []Value, cc *ssa.CallCommon) Value {
	// concrete format and arguments: computed by the engine with the real fmt
	if fv.fn != nil && fv.fn.Name() == "Sprintf" {
		if fs, ok := a[0].(*StrV); ok {
			if format, ok := strConcrete(fs); ok {
				if args, ok := e.concreteArgs(st, a[1]); ok {
					return e.strConst(fmt.Sprintf(format, args...))
				}
			}
		}
	}
	e.res.noteOnce("fmt.Sprint* with symbolic or unsupported arguments returns the placeholder string \"<fmt>\"")
	return e.strConst("<fmt>")
}

// concreteArgs converts a variadic []any of concrete basic values to Go values.
func (e *Exec) concreteArgs(st *State, v Value) ([]interface{}, bool) {
	sl, ok := v.(SliceV)
	if !ok {
		return nil, false
	}
	if sl.base.IsNil() {
		return nil, true
	}
	if !sl.len.IsConst() {
		return nil, false
	}
	n := int(sl.len.val)
	arr := e.loadArr(st, sl)
	var out []interface{}
	for i := 0; i < n; i++ {
		iv, ok := arr.e[sl.off+i].(IfaceV)
		if !ok || iv.t == nil {
			return nil, false
		}
		switch x := iv.v.(type) {
		case *Term:
			if !x.IsConst() {
				return nil, false
			}
			if x.sort.IsBool() {
				out = append(out, x.val == 1)
				continue
			}
			_, signed, isint := isInt(iv.t)
			if !isint {
				return nil, false
			}
			if signed {
				out = append(out, x.SVal())
			} else {
				out = append(out, x.val)
			}
		case *StrV:
			cs, ok := strConcrete(x)
			if !ok {
				return nil, false
			}
			out = append(out, cs)
		default:
			return nil, false
		}
	}
	return out, true
}

func (e *Exec) namedType(pkgPath, name string) types.Type {
	p := e.prog.ImportedPackage(pkgPath)
	if p == nil {
		panic(e.abort("package %s not loaded", pkgPath))
	}
	m := p.Members[name]
	if m == nil {
		panic(e.abort("type %s.%s not found", pkgPath, name))
	}
	return m.Type()
}

func hErrorf(e *Exec, st *State, fv FuncV, a []Value, cc *ssa.CallCommon) Value {
	// *fmt.wrapError{msg, err} remembering the first error operand (exact for errors.Is on sentinel identity)
	wt := e.namedType("fmt", "wrapError")
	var wrapped Value = IfaceV{}
	if len(a) > 1 {
		if sl, ok := a[1].(SliceV); ok && !sl.base.IsNil() {
			n := int(e.concretize(st, sl.len, "Errorf args"))
			arr := e.loadArr(st, sl)
			errT := types.Universe.Lookup("error").Type().Underlying().(*types.Interface)
			for i := 0; i < n; i++ {
				if iv, ok := arr.e[sl.off+i].(IfaceV); ok && iv.t != nil && types.Implements(iv.t, errT) {
					wrapped = iv
					break
				}
			}
		}
	}
	obj := e.alloc(st, &StructV{[]Value{e.strConst("<fmt.Errorf>"), wrapped}})
	return IfaceV{t: types.NewPointer(wt), v: obj}
}

func (e *Exec) unwrapErr(st *State, iv IfaceV) (IfaceV, bool) {
	if iv.t == nil {
		return IfaceV{}, false
	}
	if p, ok := iv.t.(*types.Pointer); ok {
		if n, ok := p.Elem().(*types.Named); ok && n.Obj().Pkg() != nil && n.Obj().Pkg().Path() == "fmt" && n.Obj().Name() == "wrapError" {
			sv := e.load(st, iv.v.(Ptr)).(*StructV)
			in := sv.f[1].(IfaceV)
			return in, in.t != nil
		}
	}
	// a custom Unwrap() error method: run it (it must not fork); custom Is/As: not modelled
	ms := e.prog.MethodSets.MethodSet(iv.t)
	for i := 0; i < ms.Len(); i++ {
		if n := ms.At(i).Obj().Name(); n == "Is" || n == "As" {
			panic(e.abort("errors.Is/As through custom %s method of %v", n, iv.t))
		}
	}
	for i := 0; i < ms.Len(); i++ {
		if ms.At(i).Obj().Name() == "Unwrap" {
			fn := e.prog.MethodValue(ms.At(i))
			if fn == nil || fn.Signature.Results().Len() != 1 {
				panic(e.abort("errors.Is/As: unsupported Unwrap method of %v", iv.t))
			}
			r := e.runNestedStrict(st, FuncV{fn: fn}, []Value{iv.v})
			in, ok := r.(IfaceV)
			if !ok {
				panic(e.abort("errors.Is/As: Unwrap of %v does not return an error", iv.t))
			}
			return in, in.t != nil
		}
	}
	return IfaceV{}, false
}

func hErrorsIs(e *Exec, st *State, fv FuncV, a []Value, cc *ssa.CallCommon) Value {
	err := a[0].(IfaceV)
	target := a[1].(IfaceV)
	if err.t == nil || target.t == nil {
		return e.c.Bool(err.t == nil && target.t == nil)
	}
	for {
		eq := e.valEq(st, err, target)
		if e.decide(st, eq) {
			return e.c.True
		}
		in, ok := e.unwrapErr(st, err)
		if !ok {
			return e.c.False
		}
		err = in
	}
}

func hErrorsAs(e *Exec, st *State, fv FuncV, a []Value, cc *ssa.CallCommon) Value {
	err := a[0].(IfaceV)
	tgt := a[1].(IfaceV)
	pt, ok := tgt.t.(*types.Pointer)
	if !ok {
		panic(e.abort("errors.As target is not a pointer"))
	}
	want := pt.Elem()
	for err.t != nil {
		match := false
		if types.IsInterface(want) {
			match = types.Implements(err.t, want.Underlying().(*types.Interface))
		} else {
			match = types.Identical(err.t, want)
		}
		if match {
			if types.IsInterface(want) {
				e.store(st, tgt.v.(Ptr), err)
			} else {
				e.store(st, tgt.v.(Ptr), err.v)
			}
			return e.c.True
		}
		in, ok := e.unwrapErr(st, err)
		if !ok {
			break
		}
		err = in
	}
	return e.c.False
}

// ---------- math/bits ----------

func hTZ(e *Exec, st *State, fv FuncV, a []Value, cc *ssa.CallCommon) Value {
	x := a[0].(*Term)
	w := x.sort.w
	acc := e.c.Const(64, uint64(w))
	for i := w - 1; i >= 0; i-- {
		bit := e.c.Eq(e.c.Extract(i, i, x), e.c.Const(1, 1))
		acc = e.c.Ite(bit, e.c.Const(64, uint64(i)), acc)
	}
	return acc
}

func hLen(e *Exec, st *State, fv FuncV, a []Value, cc *ssa.CallCommon) Value {
	x := a[0].(*Term)
	w := x.sort.w
	acc := e.c.Const(64, 0)
	for i := 0; i < w; i++ {
		bit := e.c.Eq(e.c.Extract(i, i, x), e.c.Const(1, 1))
		acc = e.c.Ite(bit, e.c.Const(64, uint64(i+1)), acc)
	}
	return acc
}

func hLZ(e *Exec, st *State, fv FuncV, a []Value, cc *ssa.CallCommon) Value {
	x := a[0].(*Term)
	return e.c.Bin(OpSub, e.c.Const(64, uint64(x.sort.w)), hLen(e, st, fv, a, cc).(*Term))
}

func hOnes(e *Exec, st *State, fv FuncV, a []Value, cc *ssa.CallCommon) Value {
	x := a[0].(*Term)
	acc := e.c.Const(64, 0)
	for i := 0; i < x.sort.w; i++ {
		acc = e.c.Bin(OpAdd, acc, e.c.Zext(64, e.c.Extract(i, i, x)))
	}
	return acc
}

// ---------- bytealg ----------

func (e *Exec) byteSeq(st *State, v Value) []*Term {
	switch x := v.(type) {
	case *StrV:
		return x.b
	case SliceV:
		n := int(e.concretize(st, x.len, "byte slice length"))
		if n == 0 {
			return nil
		}
		arr := e.loadArr(st, x)
		out := make([]*Term, n)
		for i := 0; i < n; i++ {
			out[i] = arr.e[x.off+i].(*Term)
		}
		return out
	}
	panic(e.abort("byteSeq of %T", v))
}

func hIndexByte(e *Exec, st *State, fv FuncV, a []Value, cc *ssa.CallCommon) Value {
	bs := e.byteSeq(st, a[0])
	c := a[1].(*Term)
	acc := e.c.Const(64, ^uint64(0))
	for i := len(bs) - 1; i >= 0; i-- {
		acc = e.c.Ite(e.c.Eq(bs[i], c), e.c.Const(64, uint64(i)), acc)
	}
	return acc
}

func hCountByte(e *Exec, st *State, fv FuncV, a []Value, cc *ssa.CallCommon) Value {
	bs := e.byteSeq(st, a[0])
	c := a[1].(*Term)
	acc := e.c.Const(64, 0)
	for i := range bs {
		acc = e.c.Bin(OpAdd, acc, e.c.Ite(e.c.Eq(bs[i], c), e.c.Const(64, 1), e.c.Const(64, 0)))
	}
	return acc
}

func hBytesEqual(e *Exec, st *State, fv FuncV, a []Value, cc *ssa.CallCommon) Value {
	x, y := e.byteSeq(st, a[0]), e.byteSeq(st, a[1])
	return e.strEq(&StrV{x}, &StrV{y})
}

func hBytesCompare(e *Exec, st *State, fv FuncV, a []Value, cc *ssa.CallCommon) Value {
	x, y := &StrV{e.byteSeq(st, a[0])}, &StrV{e.byteSeq(st, a[1])}
	lt := e.strLess(x, y, false)
	eq := e.strEq(x, y)
	return e.c.Ite(eq, e.c.Const(64, 0), e.c.Ite(lt, e.c.Const(64, ^uint64(0)), e.c.Const(64, 1)))
}

// hTimeNow: contract stub for the clock: an arbitrary instant (no monotonic
// reading), never earlier than the previous reading on this path.
func hTimeNow(e *Exec, st *State, fv FuncV, a []Value, cc *ssa.CallCommon) Value {
	st.stubCalls++
	k := st.stubCalls
	if e.ob.Clock == "concrete" {
		// the clock is not this obligation's subject: 2026-01-01T00:00:00Z plus 1 ms per reading
		e.res.noteOnce("stub: time.Now is a concrete clock (2026-01-01 + 1 ms per reading) in this obligation")
		ns := uint64(k) * 1000000
		return &StructV{[]Value{e.c.Const(64, ns%1000000000), e.c.Const(64, 62135596800+1767225600+ns/1000000000), Ptr{}}}
	}
	sec := e.c.Var(fmt.Sprintf("now#%d.sec", k), BV(64))
	nsec := e.c.Var(fmt.Sprintf("now#%d.nsec", k), BV(32))
	e.inputs[sec.name], e.inputs[nsec.name] = sec, nsec
	// plausible range: years 1970..2200 in seconds since year 1
	lo, hi := e.c.Const(64, 62135596800), e.c.Const(64, 62135596800+7258118400)
	c := e.c.AndN(e.c.Cmp(OpUle, lo, sec), e.c.Cmp(OpUlt, sec, hi), e.c.Cmp(OpUlt, nsec, e.c.Const(32, 1000000000)))
	if st.lastNow != nil {
		ps, pn := st.lastNow[0], st.lastNow[1]
		c = e.c.And(c, e.c.Or(e.c.Cmp(OpUlt, ps, sec), e.c.And(e.c.Eq(ps, sec), e.c.Cmp(OpUle, pn, nsec))))
		// bounded progress: straight-line code between two readings takes less than 5 s
		c = e.c.And(c, e.c.Cmp(OpUle, sec, e.c.Bin(OpAdd, ps, e.c.Const(64, 5))))
	}
	st.pc = append(st.pc, c)
	st.model = nil
	st.lastNow = []*Term{sec, nsec}
	e.res.noteOnce("stub(contract): time.Now returns an arbitrary instant, non-decreasing and at most 5 s after the previous reading")
	return &StructV{[]Value{e.c.Zext(64, nsec), sec, Ptr{}}}
}

// hHeaderGet: http.Header.Get as a lookup of an (already canonical) key.
func hHeaderGet(e *Exec, st *State, fv FuncV, a []Value, cc *ssa.CallCommon) Value {
	m := a[0].(MapV)
	key := textproto.CanonicalMIMEHeaderKey(e.cstr(a[1]))
	e.res.noteOnce("model: http.Header.Get is a map lookup of the canonicalised key")
	if m.obj == 0 {
		return &StrV{}
	}
	for _, en := range e.mapObj(st, m).entries {
		if ks, ok := en.k.(*StrV); ok {
			if cs, ok := strConcrete(ks); ok && cs == key {
				sl := en.v.(SliceV)
				n := int(e.concretize(st, sl.len, "header values"))
				if n == 0 {
					return &StrV{}
				}
				return e.load(st, e.sliceElemPtr(sl, e.c.Const(64, 0)))
			}
		}
	}
	return &StrV{}
}

// hTimeParse: time.Parse on concrete strings is computed by the engine with
// the real time.Parse (the result is a Time without monotonic reading).
func hTimeParse(e *Exec, st *State, fv FuncV, a []Value, cc *ssa.CallCommon) Value {
	layout, value := e.cstr(a[0]), e.cstr(a[1])
	t, err := time.Parse(layout, value)
	if err != nil {
		et := e.namedType("errors", "errorString")
		obj := e.alloc(st, &StructV{[]Value{e.strConst("time: parse error")}})
		return TupleV{[]Value{e.zero(fv.fn.Signature.Results().At(0).Type()), IfaceV{t: types.NewPointer(et), v: obj}}}
	}
	sec := uint64(t.Unix() + 62135596800)
	e.res.noteOnce("model: time.Parse on concrete strings evaluated by the engine")
	return TupleV{[]Value{&StructV{[]Value{e.c.Const(64, uint64(t.Nanosecond())), e.c.Const(64, sec), Ptr{}}}, IfaceV{}}}
}

// hHeaderSet: Set/Add/Del on an http.Header with the key canonicalised by the engine.
func hHeaderSet(e *Exec, st *State, fv FuncV, a []Value, cc *ssa.CallCommon) Value {
	m := a[0].(MapV)
	key := e.strConst(textproto.CanonicalMIMEHeaderKey(e.cstr(a[1])))
	switch fv.fn.Name() {
	case "Del":
		e.mapDelete(st, m, key)
	case "Set", "Add":
		var vals []Value
		if fv.fn.Name() == "Add" {
			if old, ok := e.mapLookup(st, m, key); ok {
				sl := old.(SliceV)
				n := int(e.concretize(st, sl.len, "header values"))
				arr := e.loadArr(st, sl)
				vals = append(vals, arr.e[sl.off:sl.off+n]...)
			}
		}
		vals = append(vals, a[2])
		p := e.alloc(st, &ArrayV{vals})
		e.mapUpdate(st, m, key, SliceV{base: p, len: e.c.Const(64, uint64(len(vals))), cap: len(vals)})
	}
	return nil
}

// hHTTPError: http.Error(w, msg, code) / http.NotFound(w, r): the status reaches the ResponseWriter.
func hHTTPError(e *Exec, st *State, fv FuncV, a []Value, cc *ssa.CallCommon) Value {
	iv := a[0].(IfaceV)
	if iv.t == nil {
		e.checkPanic(st, e.c.True, "nil ResponseWriter")
	}
	var code Value = e.c.Const(64, 404)
	if fv.fn.Name() == "Error" {
		code = a[2]
	}
	if fv.fn.Name() == "Redirect" {
		code = a[3]
	}
	m := e.prog.LookupMethod(iv.t, nil, "WriteHeader")
	if m == nil {
		panic(e.abort("ResponseWriter without WriteHeader"))
	}
	e.res.noteOnce("model: http.Error/NotFound/Redirect call WriteHeader(code) on the ResponseWriter")
	e.pushCall(st, FuncV{fn: m}, []Value{iv.v, code}, nil)
	return pushedFrame{}
}

// hSortSlice: sort.Slice as an insertion sort over the real less closure
// (the real one swaps through reflection).
func hSortSlice(e *Exec, st *State, fv FuncV, a []Value, cc *ssa.CallCommon) Value {
	iv := a[0].(IfaceV)
	sl, ok := iv.v.(SliceV)
	if !ok {
		panic(e.abort("sort.Slice of %T", iv.v))
	}
	less := a[1].(FuncV)
	n := int(e.concretize(st, sl.len, "sort.Slice length"))
	e.res.noteOnce("model: sort.Slice is an insertion sort over the real less function")
	for i := 1; i < n; i++ {
		for j := i; j > 0; j-- {
			r := e.runNestedStrict(st, less, []Value{e.c.Const(64, uint64(j)), e.c.Const(64, uint64(j-1))})
			t, ok := r.(*Term)
			if !ok || !t.IsConst() {
				panic(e.abort("sort.Slice with a symbolic comparison"))
			}
			if t.val == 0 {
				break
			}
			pj, pk := e.sliceElemPtr(sl, e.c.Const(64, uint64(j))), e.sliceElemPtr(sl, e.c.Const(64, uint64(j-1)))
			vj, vk := e.load(st, pj), e.load(st, pk)
			e.store(st, pj, vk)
			e.store(st, pk, vj)
		}
	}
	return nil
}
