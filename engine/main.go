package main

import (
	"runtime"
	"runtime/debug"
	"runtime/pprof"
	"encoding/json"
	"flag"
	"fmt"
	"go/types"
	"os"
	"os/exec"
	"path/filepath"
	"sort"
	"strings"
	"sync"
	"time"

	"golang.org/x/tools/go/packages"
	"golang.org/x/tools/go/ssa"
	"golang.org/x/tools/go/ssa/ssautil"
)

var repoDir = "/repo"
const modPath = "github.com/jech/galene"

var verifDir = "/verif"

type Config struct {
	Tier            string
	Workers         int
	Trace           bool
	MaxPaths        int
	SplitDepth      int
	VerdictTimeoutS int
	CrossTimeoutS   int
	FeasTimeoutMs   int
	CrossCheckEvery int
	Only            string
	NoReplay        bool
	Seed            int
	Progress        bool
	Deadline        time.Time
}

type Obligation struct {
	Name       string                    `json:"name"`
	Harness    string                    `json:"harness"` // "<pkgdir>.<Func>", e.g. "packetmap.H_C01_Init"
	Tiers      []string                  `json:"tiers"`
	Params     map[string]map[string]int `json:"params"` // tier -> name -> value ("all" applies to both)
	MergePaths int                       `json:"merge_paths"`
	GoPolicy   map[string]string         `json:"go"`
	PanicsOK   bool                      `json:"panics_ok"`
	StubSpec   map[string]string         `json:"stubs"`
	Reach      []string                  `json:"reach"`
	SplitDepth int                       `json:"split_depth"`
	MaxPaths   int                       `json:"max_paths"`
	Claim      string                    `json:"claim"`
	Bounds     string                    `json:"bounds"`
	TimeoutS   int                       `json:"timeout_s"`
	Lemmas     bool                      `json:"lemmas"`
	MergeFuncs []string                  `json:"merge_funcs"`
	mergeFuncs map[string]bool
	Guards     []Guard                   `json:"guards"`
	SingleSection []string               `json:"single_section"`
	Critical      []Critical             `json:"critical"`
	Clock      string                    `json:"clock"`
	GhostFS    bool                      `json:"ghost_fs"`
	FeasTimeoutMs int                    `json:"solver_timeout_ms"`
	CrashFiles []string                  `json:"crash_files"`
	Expect     string                    `json:"expect"` // "violated": a sensitivity twin that MUST fail
	guards     map[string]*Guard

	pkgPath string
	fn      *ssa.Function
	stubs   map[string]handler
	params  map[string]int
}

func (o *Obligation) GoMode(name string) string {
	if m, ok := o.GoPolicy[name]; ok {
		return m
	}
	if m, ok := o.GoPolicy["*"]; ok {
		return m
	}
	return "skip"
}

// Guard: fields of Type may only be accessed while the mutex field is held
// (lockset obligation).  Fields: names, or "*" for all but the mutex.
type Guard struct {
	Type   string   `json:"type"`
	Mutex  string   `json:"mutex"`
	Fields []string `json:"fields"`
	Except []string `json:"except"`
	ExceptFuncs []string `json:"except_funcs"`
	// Shallow: the object a field points to is immutable once published (replaced wholesale): only the field itself is guarded
	Shallow []string `json:"shallow"`
}

type Spec struct {
	Property    string        `json:"property"`
	Packages    []string      `json:"packages"`
	Obligations []*Obligation `json:"obligations"`
	Assumptions []string      `json:"assumptions"`
	Encoded     []string      `json:"encoded_functions_of_interest"`
}

type ObResult struct {
	Name           string
	Items          int
	Paths          int
	Dead           int
	Forks          int
	Steps          int
	Asserts        int
	AssertsTrivial int
	CritChecks     int
	Verdicts       int
	Merged         int
	IfConverted    int
	StateMerges    int
	ModelHits      int
	Spawned        int
	ImprecisePaths int
	Reached        map[string]bool
	Failures       []Failure
	Inconclusive   []string
	Aborted        string
	Notes          map[string]int
	LockOrder      map[string]bool
	Solver         SolverStats
	Funcs          map[string]int
	Seconds        float64
	mu             sync.Mutex
}

func newObResult(name string) *ObResult {
	return &ObResult{Name: name, Reached: map[string]bool{}, Notes: map[string]int{}, LockOrder: map[string]bool{}, Funcs: map[string]int{}}
}

func (r *ObResult) note(s string)     { r.Notes[s]++ }
func (r *ObResult) noteOnce(s string) { r.Notes[s]++ }
func (r *ObResult) fail(f Failure) {
	// dedupe by kind/msg/pos
	for _, o := range r.Failures {
		if o.Kind == f.Kind && o.Msg == f.Msg && o.Pos == f.Pos {
			return
		}
	}
	r.Failures = append(r.Failures, f)
}
func (r *ObResult) inconclusive(format string, a ...interface{}) {
	r.Inconclusive = append(r.Inconclusive, fmt.Sprintf(format, a...))
}
func (r *ObResult) lockOrder(held, acq string) {
	r.LockOrder[held+" -> "+acq] = true
}

func (r *ObResult) absorb(o *ObResult) {
	r.mu.Lock()
	defer r.mu.Unlock()
	r.Items++
	r.Paths += o.Paths
	r.Dead += o.Dead
	r.Forks += o.Forks
	r.Steps += o.Steps
	r.Asserts += o.Asserts
	r.AssertsTrivial += o.AssertsTrivial
	r.CritChecks += o.CritChecks
	r.Verdicts += o.Verdicts
	r.Merged += o.Merged
	r.IfConverted += o.IfConverted
	r.StateMerges += o.StateMerges
	r.ModelHits += o.ModelHits
	r.Spawned += o.Spawned
	r.ImprecisePaths += o.ImprecisePaths
	for k := range o.Reached {
		r.Reached[k] = true
	}
	for _, f := range o.Failures {
		r.fail(f)
	}
	r.Inconclusive = append(r.Inconclusive, o.Inconclusive...)
	if o.Aborted != "" && r.Aborted == "" {
		r.Aborted = o.Aborted
	}
	for k, v := range o.Notes {
		r.Notes[k] += v
	}
	for k := range o.LockOrder {
		r.LockOrder[k] = true
	}
	for k, v := range o.Funcs {
		r.Funcs[k] += v
	}
	r.Solver.Queries += o.Solver.Queries
	r.Solver.Sat += o.Solver.Sat
	r.Solver.Unsat += o.Solver.Unsat
	r.Solver.Unknown += o.Solver.Unknown
	r.Solver.Seconds += o.Solver.Seconds
	r.Solver.Portfolio += o.Solver.Portfolio
	r.Solver.CrossOK += o.Solver.CrossOK
	if r.Solver.Winners == nil {
		r.Solver.Winners = map[string]int{}
	}
	for k, v := range o.Solver.Winners {
		r.Solver.Winners[k] += v
	}
	r.Seconds += o.Seconds
}

// ---------- loading ----------

type Loaded struct {
	prog    *ssa.Program
	pkgs    map[string]*ssa.Package // by import path
	overlay map[string][]byte
	files   map[string]string // virtual -> real
}

func harnessOverlay() (map[string][]byte, map[string]string, error) {
	ov := map[string][]byte{}
	files := map[string]string{}
	root := filepath.Join(verifDir, "harness")
	err := filepath.Walk(root, func(p string, info os.FileInfo, err error) error {
		if err != nil || info.IsDir() || !strings.HasSuffix(p, ".go") {
			return err
		}
		rel, _ := filepath.Rel(root, p)
		virt := filepath.Join(repoDir, rel)
		b, err := os.ReadFile(p)
		if err != nil {
			return err
		}
		ov[virt] = b
		files[virt] = p
		return nil
	})
	return ov, files, err
}

func load(patterns []string) (*Loaded, error) {
	ov, files, err := harnessOverlay()
	if err != nil {
		return nil, err
	}
	cfg := &packages.Config{
		Mode:       packages.LoadAllSyntax,
		Dir:        repoDir,
		Overlay:    ov,
		BuildFlags: []string{"-tags=verif", "-mod=mod"},
		Env:        append(os.Environ(), "GOFLAGS=-mod=mod", "GOPROXY=off"),
	}
	pkgs, err := packages.Load(cfg, patterns...)
	if err != nil {
		return nil, err
	}
	if n := packages.PrintErrors(pkgs); n > 0 {
		return nil, fmt.Errorf("%d package errors", n)
	}
	prog, _ := ssautil.AllPackages(pkgs, ssa.InstantiateGenerics)
	prog.Build()
	l := &Loaded{prog: prog, pkgs: map[string]*ssa.Package{}, overlay: ov, files: files}
	for _, p := range prog.AllPackages() {
		l.pkgs[p.Pkg.Path()] = p
	}
	return l, nil
}

// ---------- running ----------

type workItem struct {
	ob     *Obligation
	preset []int
}

func runItem(l *Loaded, cfg *Config, it workItem, spawn func([]int), sol *Solver, w *worker) *ObResult {
	t0 := time.Now()
	res := newObResult(it.ob.Name)
	c := NewCtx()
	sol.timeout = cfg.FeasTimeoutMs
	if it.ob.FeasTimeoutMs > 0 {
		// obligations whose queries suit another solver better (e.g. 16-bit linear arithmetic: cvc5 bv-as-int)
		// give the incremental z3 little time; its "unknown" goes to the portfolio
		sol.timeout = it.ob.FeasTimeoutMs
	}
	sol.Reset()
	e := &Exec{
		c: c, prog: l.prog, sol: sol, ob: it.ob, zeroCache: map[types.Type]Value{}, globals: w.globals, wk: w,
		inputs: map[string]*Term{}, ghostSel: map[string]*Term{}, res: res, cfg: cfg, funcsHit: map[string]int{}, fnHits: map[*ssa.Function]int{},
		preset: it.preset, spawn: spawn, mergeInfo: map[*ssa.Function]*mergeable{}, ipdomCache: map[*ssa.Function][]int{},
		noConvert: map[*ssa.If]bool{}, regionOK: map[*ssa.If]bool{},
	}
	st := &State{heap: map[int]Value{}, decided: &decidedLayer{m: map[int]uint64{}}, inited: map[*ssa.Package]bool{}, held: map[string]bool{}}
	if it.ob.MaxPaths > 0 {
		cfgc := *cfg
		cfgc.MaxPaths = it.ob.MaxPaths
		e.cfg = &cfgc
	}
	func() {
		defer func() {
			if r := recover(); r != nil {
				if a, ok := r.(abortSignal); ok {
					res.Aborted = a.msg
					return
				}
				res.Aborted = fmt.Sprintf("engine panic: %v at %s", r, e.posStr())
				if cfg.Trace {
					panic(r)
				}
			}
		}()
		e.prepareInit(st)
		e.pushCall(st, FuncV{fn: it.ob.fn}, nil, nil)
		e.run(st)
	}()
	res.Solver = sol.Stats
	for fn, n := range e.fnHits {
		e.funcsHit[fn.String()] += n
	}
	res.Funcs = e.funcsHit
	res.Seconds = time.Since(t0).Seconds()
	return res
}

func runObligations(l *Loaded, cfg *Config, obs []*Obligation) map[string]*ObResult {
	results := map[string]*ObResult{}
	for _, o := range obs {
		results[o.Name] = newObResult(o.Name)
	}
	var mu sync.Mutex
	cond := sync.NewCond(&mu)
	var queue []workItem
	pending := 0
	for _, o := range obs {
		queue = append(queue, workItem{ob: o})
		pending++
	}
	var wg sync.WaitGroup
	for w := 0; w < cfg.Workers; w++ {
		wg.Add(1)
		go func() {
			defer wg.Done()
			sol := NewSolver(cfg.FeasTimeoutMs)
			defer sol.Close()
			wks := map[*Obligation]*worker{} // init snapshots are per obligation (stubs and policies differ)
			for {
				mu.Lock()
				for len(queue) == 0 && pending > 0 {
					cond.Wait()
				}
				if pending == 0 {
					mu.Unlock()
					cond.Broadcast()
					return
				}
				it := queue[0]
				queue = queue[1:]
				mu.Unlock()
				spawn := func(ch []int) {
					mu.Lock()
					queue = append(queue, workItem{ob: it.ob, preset: ch})
					pending++
					mu.Unlock()
					cond.Signal()
				}
				if cfg.Progress {
					fmt.Fprintf(os.Stderr, "[start] %s preset=%v\n", it.ob.Name, it.preset)
				}
				var r *ObResult
				if time.Now().After(cfg.Deadline) {
					r = newObResult(it.ob.Name)
					r.Aborted = "wall-clock budget of the check exhausted"
				} else {
					wk := wks[it.ob]
					if wk == nil {
						wk = &worker{globals: map[*ssa.Global]int{}, ob: it.ob}
						wks[it.ob] = wk
					}
					r = runItem(l, cfg, it, spawn, sol, wk)
				}
				if cfg.Progress {
					fmt.Fprintf(os.Stderr, "[done ] %s preset=%v paths=%d queries=%d solver=%.1fs wall=%.1fs spawned=%d aborted=%q\n", it.ob.Name, it.preset, r.Paths, r.Solver.Queries, r.Solver.Seconds, r.Seconds, r.Spawned, r.Aborted)
				}
				results[it.ob.Name].absorb(r)
				mu.Lock()
				pending--
				mu.Unlock()
				cond.Broadcast()
			}
		}()
	}
	wg.Wait()
	return results
}

// ---------- known findings ----------

type Known struct {
	Property   string
	Obligation string // may be "*"
	Conds      []string
	Text       string
	Fixed      bool
}

func loadKnown() []Known {
	var out []Known
	data, err := os.ReadFile(filepath.Join(verifDir, "known_findings.txt"))
	if err != nil {
		return nil
	}
	for _, line := range strings.Split(string(data), "\n") {
		line = strings.TrimSpace(line)
		if line == "" || strings.HasPrefix(line, "#") {
			continue
		}
		k := Known{}
		if strings.HasPrefix(line, "fixed:") {
			k.Fixed = true
			continue // fixed entries suppress nothing
		}
		if !strings.HasPrefix(line, "known:") {
			continue
		}
		rest := strings.TrimSpace(line[len("known:"):])
		parts := strings.SplitN(rest, "::", 2)
		if len(parts) == 2 {
			k.Text = strings.TrimSpace(parts[1])
		}
		for _, f := range strings.Fields(parts[0]) {
			switch {
			case strings.HasPrefix(f, "property="):
				k.Property = f[len("property="):]
			case strings.HasPrefix(f, "obligation="):
				k.Obligation = f[len("obligation="):]
			case strings.HasPrefix(f, "when="):
				k.Conds = strings.Split(f[len("when="):], "&&")
			}
		}
		out = append(out, k)
	}
	return out
}

// cond forms: name>=N name<=N name=N name!=N name>N name<N (N decimal or 0x..), kind=panic|assert, msg~text, pos~text ('_' in text stands for a space)
func (k Known) matches(prop, ob string, f Failure) bool {
	if k.Property != prop || (k.Obligation != "*" && k.Obligation != ob) {
		return false
	}
	for _, c := range k.Conds {
		if !evalCond(c, f) {
			return false
		}
	}
	return true
}

func evalCond(c string, f Failure) bool {
	for _, op := range []string{">=", "<=", "!=", "~", "=", ">", "<"} {
		if i := strings.Index(c, op); i > 0 {
			name, rhs := c[:i], c[i+len(op):]
			rhs = strings.ReplaceAll(rhs, "_", " ")
			switch name {
			case "kind":
				return (f.Kind == rhs) == (op != "!=")
			case "msg":
				return strings.Contains(f.Msg, rhs)
			case "pos":
				return strings.Contains(f.Pos, rhs)
			}
			v, ok := f.Model[name]
			if !ok {
				return false
			}
			var n uint64
			if _, err := fmt.Sscanf(strings.TrimSpace(rhs), "0x%x", &n); err != nil {
				if _, err := fmt.Sscanf(strings.TrimSpace(rhs), "%d", &n); err != nil {
					return false
				}
			}
			switch op {
			case ">=":
				return v >= n
			case "<=":
				return v <= n
			case "!=":
				return v != n
			case "=":
				return v == n
			case ">":
				return v > n
			case "<":
				return v < n
			}
		}
	}
	return false
}

// ---------- replay ----------

type ReplayFile struct {
	Property   string                          `json:"property"`
	Obligation string                          `json:"obligation"`
	Harness    string                          `json:"harness"`
	Pkg        string                          `json:"pkg"`
	Choices    []int                           `json:"choices"`
	Params     map[string]int                  `json:"params"`
	Values     map[string]uint64               `json:"values"`
	Ghost      map[string]map[string][][2]uint64 `json:"ghost"`
	Kind       string                          `json:"kind"`
	Failed     string                          `json:"failed"`
	Pos        string                          `json:"pos"`
	Stack      []string                        `json:"stack"`
	Stubs      map[string]string               `json:"stubs,omitempty"`
	CrashFiles []string                        `json:"crash_files,omitempty"`
}

func writeReplay(prop string, ob *Obligation, f Failure, n int) string {
	rf := ReplayFile{Property: prop, Obligation: ob.Name, Harness: ob.fn.Name(), Pkg: ob.pkgPath, Choices: f.Choices, Params: ob.params,
		Values: map[string]uint64{}, Ghost: map[string]map[string][][2]uint64{}, Kind: f.Kind, Failed: f.Msg, Pos: f.Pos, Stack: f.Stack, Stubs: ob.StubSpec, CrashFiles: ob.CrashFiles}
	gi := map[string]uint64{}
	gv := map[string]uint64{}
	for k, v := range f.Model {
		if strings.HasPrefix(k, "ghost|") {
			if strings.HasSuffix(k, "|i") {
				gi[k[:len(k)-2]] = v
			} else {
				gv[k[:len(k)-2]] = v
			}
			continue
		}
		rf.Values[k] = v
	}
	for k, i := range gi {
		name := strings.Split(k, "|")[1]
		if rf.Ghost[name] == nil {
			rf.Ghost[name] = map[string][][2]uint64{}
		}
		rf.Ghost[name]["pairs"] = append(rf.Ghost[name]["pairs"], [2]uint64{i, gv[k]})
	}
	dir := filepath.Join(verifDir, "evidence", "replay", prop)
	os.MkdirAll(dir, 0o755)
	p := filepath.Join(dir, fmt.Sprintf("%s-%d.json", ob.Name, n))
	b, _ := json.MarshalIndent(rf, "", " ")
	os.WriteFile(p, b, 0o644)
	return p
}

// nativeReplay runs the harness natively with the counterexample; returns the result line.
func nativeReplay(l *Loaded, path string) (string, string, error) {
	data, err := os.ReadFile(path)
	if err != nil {
		return "", "", err
	}
	var rf ReplayFile
	if err := json.Unmarshal(data, &rf); err != nil {
		return "", "", err
	}
	sp := l.pkgs[rf.Pkg]
	if sp == nil {
		return "", "", fmt.Errorf("package %s not loaded", rf.Pkg)
	}
	tmp, err := os.MkdirTemp("", "gosmt-replay-")
	if err != nil {
		return "", "", err
	}
	defer os.RemoveAll(tmp)
	// generated test file listing all harnesses of the package
	var names []string
	for name, m := range sp.Members {
		if fn, ok := m.(*ssa.Function); ok && strings.HasPrefix(name, "H_") && fn.Signature.Params().Len() == 0 {
			names = append(names, name)
		}
	}
	sort.Strings(names)
	var sb strings.Builder
	fmt.Fprintf(&sb, "//go:build verifreplay\n\npackage %s\n\nimport (\n\t\"testing\"\n\tzzv \"%s/zzverif\"\n)\n\nfunc TestVerifReplay(t *testing.T) {\n\tzzv.RunReplay(t, map[string]func(){\n", sp.Pkg.Name(), modPath)
	for _, n := range names {
		fmt.Fprintf(&sb, "\t\t%q: %s,\n", n, n)
	}
	sb.WriteString("\t})\n}\n")
	testFile := filepath.Join(tmp, "zz_verif_replay_test.go")
	os.WriteFile(testFile, []byte(sb.String()), 0o644)
	rel := strings.TrimPrefix(rf.Pkg, modPath)
	ov := map[string]map[string]string{"Replace": {}}
	for virt, real := range l.files {
		ov["Replace"][virt] = real
	}
	ov["Replace"][filepath.Join(repoDir, rel, "zz_verif_replay_test.go")] = testFile
	if len(rf.Stubs) > 0 || len(rf.CrashFiles) > 0 {
		plan, err := buildHooks(l, rf.Stubs, rf.CrashFiles)
		if err != nil {
			return "", "", fmt.Errorf("native interception of stubs: %v", err)
		}
		n := 0
		for file, content := range plan.files {
			n++
			pf := filepath.Join(tmp, fmt.Sprintf("hooked-%d-%s", n, filepath.Base(file)))
			os.WriteFile(pf, content, 0o644)
			ov["Replace"][file] = pf
		}
		for pkgPath, content := range plan.reg {
			n++
			pf := filepath.Join(tmp, fmt.Sprintf("reg-%d.go", n))
			os.WriteFile(pf, []byte(content), 0o644)
			prel := strings.TrimPrefix(pkgPath, modPath)
			ov["Replace"][filepath.Join(repoDir, prel, "zz_verif_hooks_replay.go")] = pf
		}
	}
	ovb, _ := json.Marshal(ov)
	ovFile := filepath.Join(tmp, "overlay.json")
	os.WriteFile(ovFile, ovb, 0o644)
	cmd := exec.Command("go", "test", "-vet=off", "-count=1", "-tags", "verifreplay", "-overlay", ovFile, "-run", "^TestVerifReplay$", "-v", "-timeout", "300s", "."+rel)
	cmd.Dir = repoDir
	cmd.Env = append(os.Environ(), "GOFLAGS=-mod=mod", "GOPROXY=off", "VERIF_REPLAY="+path)
	out, _ := cmd.CombinedOutput()
	txt := string(out)
	for _, line := range strings.Split(txt, "\n") {
		if strings.HasPrefix(line, "VERIF-REPLAY-RESULT: ") {
			return strings.TrimPrefix(line, "VERIF-REPLAY-RESULT: "), txt, nil
		}
	}
	// a panic that escaped (e.g. fatal error) also counts as a crash
	if strings.Contains(txt, "panic:") || strings.Contains(txt, "fatal error:") {
		return "panic (uncaught) " + firstMatch(txt, "panic:", "fatal error:"), txt, nil
	}
	return "", txt, fmt.Errorf("replay produced no result line")
}

func firstMatch(txt string, keys ...string) string {
	for _, line := range strings.Split(txt, "\n") {
		for _, k := range keys {
			if strings.Contains(line, k) {
				return strings.TrimSpace(line)
			}
		}
	}
	return ""
}

func reproduced(f Failure, result string) bool {
	switch f.Kind {
	case "assert":
		return strings.HasPrefix(result, "assert-failed "+f.Msg)
	case "panic":
		return strings.HasPrefix(result, "panic")
	}
	return false
}

// ---------- main ----------

func main() {
	debug.SetGCPercent(600)
	if len(os.Args) < 2 {
		fmt.Fprintln(os.Stderr, "usage: gosmt check <property> <quick|thorough> | gosmt replay <file>")
		os.Exit(2)
	}
	if v := os.Getenv("VERIF_DIR"); v != "" {
		verifDir = v
	}
	if v := os.Getenv("VERIF_REPO"); v != "" {
		// development aid (seed testing in scratch worktrees); the registered commands never set it
		repoDir = v
	}
	switch os.Args[1] {
	case "check":
		os.Exit(cmdCheck(os.Args[2:]))
	case "replay":
		os.Exit(cmdReplay(os.Args[2:]))
	}
	fmt.Fprintln(os.Stderr, "unknown command")
	os.Exit(2)
}

func cmdReplay(args []string) int {
	if len(args) < 1 {
		return 2
	}
	data, err := os.ReadFile(args[0])
	if err != nil {
		fmt.Println(err)
		return 2
	}
	var rf ReplayFile
	json.Unmarshal(data, &rf)
	rel := strings.TrimPrefix(rf.Pkg, modPath)
	l, err := load([]string{"." + rel, "./zzverif"})
	if err != nil {
		fmt.Println(err)
		return 2
	}
	res, txt, err := nativeReplay(l, args[0])
	if err != nil {
		fmt.Println(txt)
		fmt.Println("replay error:", err)
		return 3
	}
	fmt.Println("replay result:", res)
	if strings.HasPrefix(res, "assert-failed") || strings.HasPrefix(res, "panic") {
		fmt.Printf("VIOLATION property=%s replay=%s\n", rf.Property, args[0])
		return 1
	}
	return 0
}

func cmdCheck(args []string) int {
	fs := flag.NewFlagSet("check", flag.ExitOnError)
	cfg := &Config{}
	fs.IntVar(&cfg.Workers, "j", 16, "workers")
	fs.BoolVar(&cfg.Trace, "trace", false, "trace instructions")
	fs.StringVar(&cfg.Only, "only", "", "run only obligations whose name contains this")
	fs.BoolVar(&cfg.NoReplay, "noreplay", false, "skip native replay")
	fs.IntVar(&cfg.MaxPaths, "maxpaths", 400000, "path budget per work item")
	fs.BoolVar(&cfg.Progress, "progress", false, "print work item progress to stderr")
	cpuprof := fs.String("cpuprofile", "", "write cpu profile")
	budgetMin := fs.Int("budget", 0, "wall-clock budget in minutes (default: quick 12, thorough 90)")
	var pos []string
	for len(args) > 0 && !strings.HasPrefix(args[0], "-") {
		pos = append(pos, args[0])
		args = args[1:]
	}
	fs.Parse(args)
	if len(pos) < 2 {
		fmt.Fprintln(os.Stderr, "usage: gosmt check <property> <quick|thorough> [flags]")
		return 2
	}
	prop, tier := pos[0], pos[1]
	if t := os.Getenv("VERIF_TIER"); t != "" && len(pos) < 2 {
		tier = t
	}
	cfg.Tier = tier
	fmt.Sscanf(os.Getenv("VERIF_SEED"), "%d", &cfg.Seed)
	cfg.FeasTimeoutMs = 20000
	cfg.VerdictTimeoutS = 120
	cfg.CrossCheckEvery = 16
	cfg.CrossTimeoutS = 15
	cfg.SplitDepth = 2
	if tier == "thorough" {
		cfg.VerdictTimeoutS = 900
		cfg.FeasTimeoutMs = 60000
		cfg.CrossCheckEvery = 4
		cfg.CrossTimeoutS = 120
	}
	if *cpuprof != "" {
		pf, _ := os.Create(*cpuprof)
		pprof.StartCPUProfile(pf)
		defer pprof.StopCPUProfile()
		runtime.SetBlockProfileRate(100000)
		defer func() {
			bf, _ := os.Create(*cpuprof + ".block")
			pprof.Lookup("block").WriteTo(bf, 0)
			bf.Close()
		}()
	}
	t0 := time.Now()
	if *budgetMin == 0 {
		*budgetMin = 12
		if tier == "thorough" {
			*budgetMin = 90
		}
	}
	cfg.Deadline = t0.Add(time.Duration(*budgetMin) * time.Minute)
	specData, err := os.ReadFile(filepath.Join(verifDir, "specs", prop+".json"))
	if err != nil {
		fmt.Println("no spec:", err)
		return 2
	}
	var spec Spec
	if err := json.Unmarshal(specData, &spec); err != nil {
		fmt.Println("bad spec:", err)
		return 2
	}
	l, err := load(append(spec.Packages, "./zzverif"))
	if err != nil {
		fmt.Printf("INCONCLUSIVE property=%s reason=load: %v\n", prop, err)
		writeEvidenceLoadFailure(prop, tier, cfg, err, time.Since(t0).Seconds())
		return 3
	}
	loadS := time.Since(t0).Seconds()
	var obs []*Obligation
	for _, o := range spec.Obligations {
		if len(o.Tiers) > 0 {
			in := false
			for _, t := range o.Tiers {
				if t == tier {
					in = true
				}
			}
			if !in {
				continue
			}
		}
		if cfg.Only != "" && !strings.Contains(o.Name, cfg.Only) {
			continue
		}
		i := strings.LastIndex(o.Harness, ".")
		o.pkgPath = modPath + "/" + o.Harness[:i]
		sp := l.pkgs[o.pkgPath]
		if sp == nil {
			fmt.Printf("INCONCLUSIVE property=%s obligation=%s reason=package %s not loaded\n", prop, o.Name, o.pkgPath)
			return 3
		}
		o.fn = sp.Func(o.Harness[i+1:])
		if o.fn == nil {
			fmt.Printf("INCONCLUSIVE property=%s obligation=%s reason=harness %s not found\n", prop, o.Name, o.Harness)
			return 3
		}
		if o.MergePaths == 0 {
			o.MergePaths = 16
		}
		o.params = map[string]int{}
		for k, v := range o.Params["all"] {
			o.params[k] = v
		}
		for k, v := range o.Params[tier] {
			o.params[k] = v
		}
		o.stubs = buildStubs(o)
		o.guards = map[string]*Guard{}
		for i := range o.Guards {
			o.guards[o.Guards[i].Type] = &o.Guards[i]
		}
		o.mergeFuncs = map[string]bool{}
		for _, m := range o.MergeFuncs {
			o.mergeFuncs[m] = true
		}
		obs = append(obs, o)
	}
	results := runObligations(l, cfg, obs)
	return report(l, cfg, &spec, obs, results, loadS, t0)
}

func sortedKeys(m map[string]int) []string {
	ks := make([]string, 0, len(m))
	for k := range m {
		ks = append(ks, k)
	}
	sort.Strings(ks)
	return ks
}
