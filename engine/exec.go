package main

// The forking symbolic executor over go/ssa.

import (
	"time"
	"fmt"
	"go/constant"
	"go/token"
	"go/types"
	"os"
	"sort"
	"strings"

	"golang.org/x/tools/go/ssa"
)

type deferred struct {
	fv   FuncV
	args []Value
	// invoke
	recvIface *IfaceV
	method    *types.Func
}

type Frame struct {
	fn     *ssa.Function
	block  *ssa.BasicBlock
	prev   *ssa.BasicBlock
	ip     int
	env    map[ssa.Value]Value
	defers []deferred
	visits map[int]int
	// where the result goes in the caller
	guarded map[ssa.Value]string // addresses of guarded fields -> mutex key
	retTo   ssa.Value // nil: discard
	inDefer bool      // this frame runs a deferred call: on return the caller re-executes RunDefers
	marker  bool      // nested-run boundary
	critEpoch int    // critical-section obligations: acquisition count at the first guarded call of this operation
	result  Value     // for marker frames
}

type decidedLayer struct {
	parent *decidedLayer
	m      map[int]uint64 // term id -> value (bool 0/1 or concrete bv)
}

func (d *decidedLayer) get(id int) (uint64, bool) {
	for l := d; l != nil; l = l.parent {
		if v, ok := l.m[id]; ok {
			return v, true
		}
	}
	return 0, false
}

type Failure struct {
	Kind    string // assert | panic
	Msg     string
	Pos     string
	Model   Model
	Choices []int
	Stack   []string
}

type State struct {
	frames  []*Frame
	heap    map[int]Value
	nextObj int
	pc      []*Term
	decided *decidedLayer
	choices []int // concrete choices taken (v.Choice), in order
	inited  map[*ssa.Package]bool
	held    map[string]bool // mutex objects held (ghost), keyed by pointer
	heldNames map[string]string
	objNames map[int]string
	choicePos int
	guardOf map[int]string // object -> mutex key that guards it (lockset)
	allocFn map[int]*ssa.Function
	model   Model // a satisfying assignment of pc (nil: none cached)
	stubCalls int
	lastNow   []*Term
	lockCounts map[string]int
	lockEpochs map[string]int // mutex name -> number of acquisitions so far (copy-on-write)
	gfs       *ghostFS
	imprecise bool
	unwind  int
	splitLimit int
	depth   int // number of forks on this path
	tolerant int // >0 while running package initialisers
	log     []string
}

type forkSignal struct {
	cond   *Term
	mt, mf Model
}
type forkValuesSignal struct {
	t    *Term
	vals []uint64
	rest bool
	why  string
}
type deadSignal struct{ why string }
type abortSignal struct{ msg string }
type choiceSignal struct {
	n int
}

type Exec struct {
	c         *Ctx
	prog      *ssa.Program
	sol       *Solver
	ob        *Obligation
	zeroCache map[types.Type]Value
	globals   map[*ssa.Global]int
	work      []*State
	inputs    map[string]*Term // named harness inputs (for models)
	ghostSel  map[string]*Term // recorded ghost selects: key "name@idxterm" -> select term, for model extraction
	res       *ObResult
	cfg       *Config
	curState  *State
	curInstr  ssa.Instruction
	funcsHit  map[string]int
	fnHits    map[*ssa.Function]int
	preset    []int
	spawn     func(choices []int) // hand a sub-obligation to the pool
	mergeInfo map[*ssa.Function]*mergeable
	ipdomCache map[*ssa.Function][]int
	noConvert map[*ssa.If]bool
	regionOK  map[*ssa.If]bool
	pure      int
	crossDone int
	inMerged  int
	wk        *worker
	buildingSnap bool
}

func (e *Exec) abort(format string, a ...interface{}) abortSignal {
	pos := ""
	if e.curInstr != nil {
		pos = " at " + e.prog.Fset.Position(e.curInstr.Pos()).String()
		if e.curInstr.Parent() != nil {
			pos += " in " + e.curInstr.Parent().String()
		}
	}
	return abortSignal{fmt.Sprintf(format, a...) + pos}
}

func (st *State) top() *Frame { return st.frames[len(st.frames)-1] }

func (st *State) clone() *State {
	n := &State{
		heap: make(map[int]Value, len(st.heap)+8), nextObj: st.nextObj,
		decided: &decidedLayer{parent: st.decided, m: map[int]uint64{}},
		inited: st.inited, imprecise: st.imprecise, unwind: st.unwind, splitLimit: st.splitLimit,
		depth: st.depth + 1, tolerant: st.tolerant,
	}
	for k, v := range st.heap {
		n.heap[k] = v
	}
	n.pc = append([]*Term(nil), st.pc...)
	n.choices = append([]int(nil), st.choices...)
	n.log = append([]string(nil), st.log...)
	n.held = make(map[string]bool, len(st.held))
	for k, v := range st.held {
		n.held[k] = v
	}
	n.lockEpochs = st.lockEpochs
	n.heldNames = make(map[string]string, len(st.heldNames))
	for k, v := range st.heldNames {
		n.heldNames[k] = v
	}
	n.objNames = st.objNames
	n.model = st.model
	if st.allocFn != nil {
		n.allocFn = make(map[int]*ssa.Function, len(st.allocFn))
		for k, v := range st.allocFn {
			n.allocFn[k] = v
		}
	}
	if st.guardOf != nil {
		n.guardOf = make(map[int]string, len(st.guardOf))
		for k, v := range st.guardOf {
			n.guardOf[k] = v
		}
	}
	n.choicePos = st.choicePos
	n.stubCalls = st.stubCalls
	n.lastNow = st.lastNow
	if st.gfs != nil {
		n.gfs = st.gfs.clone()
	}
	if st.lockCounts != nil {
		n.lockCounts = make(map[string]int, len(st.lockCounts))
		for k, v := range st.lockCounts {
			n.lockCounts[k] = v
		}
	}
	n.inited = make(map[*ssa.Package]bool, len(st.inited))
	for k, v := range st.inited {
		n.inited[k] = v
	}
	n.frames = make([]*Frame, len(st.frames))
	for i, f := range st.frames {
		nf := *f
		nf.env = make(map[ssa.Value]Value, len(f.env)+8)
		for k, v := range f.env {
			nf.env[k] = v
		}
		nf.defers = append([]deferred(nil), f.defers...)
		if f.guarded != nil {
			nf.guarded = make(map[ssa.Value]string, len(f.guarded))
			for k, v := range f.guarded {
				nf.guarded[k] = v
			}
		}
		nf.visits = make(map[int]int, len(f.visits))
		for k, v := range f.visits {
			nf.visits[k] = v
		}
		n.frames[i] = &nf
	}
	// the parent gets a fresh layer too so later decisions do not leak into the child
	st.decided = &decidedLayer{parent: st.decided, m: map[int]uint64{}}
	return n
}

// ---------- decisions ----------

func (e *Exec) feasible(st *State, cond *Term) Result {
	if cond.IsTrue() {
		// still may be infeasible pc; assume pc feasible (maintained invariant)
		return Sat
	}
	if cond.IsFalse() {
		return Unsat
	}
	r, _ := e.sol.Check(st.pc, cond, nil)
	return r
}

// feasibleM is feasible that also returns a model of pc ∧ cond on sat.
func (e *Exec) feasibleM(st *State, cond *Term) (Result, Model) {
	if cond.IsFalse() {
		return Unsat, nil
	}
	r, m := e.sol.Check(st.pc, cond, e.modelVars())
	if r != Sat {
		m = nil
	}
	return r, m
}

// modelVars: the scalar input variables (evaluable part of a model).
func (e *Exec) modelVars() map[string]*Term {
	if len(e.c.vars) > modelVarLimit {
		return nil // too many variables: model caching would cost more than it saves
	}
	w := make(map[string]*Term, len(e.c.vars))
	for k, t := range e.c.vars {
		if !t.sort.IsArray() {
			w[k] = t
		}
	}
	return w
}

// extendPC appends t to the path condition, keeping the cached model only if it satisfies t.
func (e *Exec) extendPC(st *State, t *Term) {
	st.pc = append(st.pc, t)
	if st.model != nil {
		if v, ok := evalTerm(t, st.model); !ok || v != 1 {
			st.model = nil
		}
	}
}

// decide returns the truth value of cond on this path, forking if both are possible.
func (e *Exec) decide(st *State, cond *Term) bool {
	if cond.IsConst() {
		return cond.val == 1
	}
	if cond.op == OpNot {
		return !e.decide(st, cond.args[0])
	}
	if v, ok := st.decided.get(cond.id); ok {
		return v == 1
	}
	if e.pure > 0 {
		panic(impureSignal{"symbolic decision"})
	}
	var rt, rf Result
	var mt, mf Model
	known := false
	if st.model != nil {
		if v, ok := evalTerm(cond, st.model); ok {
			known = true
			if v == 1 {
				rt, mt = Sat, st.model
				rf, mf = e.feasibleM(st, e.c.Not(cond))
			} else {
				rf, mf = Sat, st.model
				rt, mt = e.feasibleM(st, cond)
			}
			e.res.ModelHits++
		}
	}
	if !known {
		rt, mt = e.feasibleM(st, cond)
		if rt == Unsat {
			rf, mf = Sat, st.model // pc is feasible, so the other side is
			if st.model == nil {
				rf, mf = e.feasibleM(st, e.c.Not(cond))
			}
		} else {
			rf, mf = e.feasibleM(st, e.c.Not(cond))
		}
	}
	if os.Getenv("GOSMT_DEBUG") != "" {
		fmt.Fprintf(os.Stderr, "decide %s at %s: true:%v false:%v\n", cond, e.posStr(), rt, rf)
	}
	if rt == Unknown || rf == Unknown {
		st.imprecise = true
		e.res.note("feasibility unknown at " + e.posStr())
	}
	switch {
	case rt != Unsat && rf != Unsat:
		if st.tolerant > 0 {
			panic(e.abort("symbolic branch during package initialisation"))
		}
		panic(forkSignal{cond: cond, mt: mt, mf: mf})
	case rt != Unsat:
		st.decided.m[cond.id] = 1
		return true
	case rf != Unsat:
		st.decided.m[cond.id] = 0
		return false
	}
	panic(deadSignal{"path condition unsatisfiable"})
}

// concretize returns a concrete value for t, forking over all feasible values.
func (e *Exec) concretize(st *State, t *Term, why string) uint64 {
	if t.IsConst() {
		return t.val
	}
	if v, ok := st.decided.get(t.id); ok {
		return v
	}
	if e.pure > 0 {
		panic(impureSignal{"symbolic value"})
	}
	limit := st.splitLimit
	if limit == 0 {
		limit = 64
	}
	var vals []uint64
	extra := e.c.True
	rest := false
	for {
		r, m := e.sol.Check(st.pc, extra, map[string]*Term{"v": t})
		if r == Unsat {
			break
		}
		if r == Unknown {
			panic(e.abort("solver unknown while enumerating values (%s)", why))
		}
		v := m["v"]
		vals = append(vals, v)
		extra = e.c.And(extra, e.c.Not(e.c.Eq(t, e.c.Const(t.sort.w, v))))
		if len(vals) > limit {
			rest = true
			break
		}
	}
	if rest {
		panic(e.abort("more than %d feasible values for %s", limit, why))
	}
	if len(vals) == 0 {
		panic(deadSignal{"no feasible value"})
	}
	if len(vals) == 1 {
		st.decided.m[t.id] = vals[0]
		return vals[0]
	}
	if st.tolerant > 0 {
		panic(e.abort("symbolic value during package initialisation"))
	}
	sort.Slice(vals, func(i, j int) bool { return vals[i] < vals[j] })
	panic(forkValuesSignal{t: t, vals: vals, why: why})
}

func (e *Exec) posStr() string {
	if e.curInstr == nil {
		return "?"
	}
	pos := e.curInstr.Pos()
	if ifi, ok := e.curInstr.(*ssa.If); ok && !pos.IsValid() {
		pos = ifi.Cond.Pos()
		if !pos.IsValid() {
			// e.g. a comparison: use the position of its first operand's instruction
			if b, ok := ifi.Cond.(*ssa.BinOp); ok {
				pos = b.X.Pos()
				if !pos.IsValid() {
					pos = b.Y.Pos()
				}
			}
		}
	}
	p := e.prog.Fset.Position(pos)
	fn := ""
	if e.curInstr.Parent() != nil {
		fn = e.curInstr.Parent().String()
	}
	return fmt.Sprintf("%s:%d(%s)", shortFile(p.Filename), p.Line, fn)
}

func shortFile(f string) string {
	if i := strings.LastIndex(f, "/"); i >= 0 {
		if j := strings.LastIndex(f[:i], "/"); j >= 0 {
			return f[j+1:]
		}
	}
	return f
}

func (e *Exec) stackStrs(st *State) []string {
	var out []string
	for i := len(st.frames) - 1; i >= 0; i-- {
		f := st.frames[i]
		if f.fn == nil {
			continue
		}
		line := 0
		if f.block != nil && f.ip < len(f.block.Instrs) {
			line = e.prog.Fset.Position(f.block.Instrs[f.ip].Pos()).Line
		}
		out = append(out, fmt.Sprintf("%s:%d", f.fn.String(), line))
	}
	return out
}

// ---------- panics (implicit and explicit) ----------

// checkPanic: cond is the FAILING condition.  If it is feasible the obligation
// records a panic failure (NoPanic is on everywhere: a feasible implicit panic
// in encoded code is always worth reporting); execution continues with ¬cond.
func (e *Exec) checkPanic(st *State, cond *Term, what string) {
	if cond.IsFalse() {
		return
	}
	key := -cond.id - 1
	if _, ok := st.decided.get(key); ok {
		return
	}
	if e.pure > 0 {
		panic(impureSignal{"possible panic"})
	}
	if st.tolerant > 0 {
		if cond.IsTrue() {
			panic(e.abort("panic during package initialisation: %s", what))
		}
		return
	}
	r, m := e.sol.Check(st.pc, cond, e.wantModel())
	if r == Unknown {
		st.imprecise = true
		e.res.note("panic check unknown: " + what + " at " + e.posStr())
	}
	if r == Unsat {
		// cannot panic here: remember, nothing to add to the path condition
		st.decided.m[key] = 1
		return
	}
	if r == Sat {
		if e.ob.PanicsOK {
			// the harness says panics of the code under test are not its subject
		} else {
			e.res.fail(Failure{Kind: "panic", Msg: what, Pos: e.posStr(), Model: m, Choices: append([]int(nil), st.choices...), Stack: e.stackStrs(st)})
		}
	}
	if cond.IsTrue() {
		panic(deadSignal{"panic: " + what})
	}
	// continue on the non-panicking side
	nc := e.c.Not(cond)
	if st.model != nil {
		if v, ok := evalTerm(nc, st.model); ok && v == 1 {
			st.pc = append(st.pc, nc)
			st.decided.m[key] = 1
			return
		}
	}
	r2, m2 := e.feasibleM(st, nc)
	if r2 == Unsat {
		panic(deadSignal{"panic (always): " + what})
	}
	st.pc = append(st.pc, nc)
	st.model = m2
	st.decided.m[key] = 1
}

func (e *Exec) wantModel() map[string]*Term {
	w := make(map[string]*Term, len(e.inputs)+len(e.ghostSel))
	for k, t := range e.inputs {
		w[k] = t
	}
	for k, t := range e.ghostSel {
		w[k] = t
	}
	return w
}

// ---------- operands ----------

func (e *Exec) constValue(c *ssa.Const) Value {
	t := c.Type()
	if c.Value == nil {
		return e.zero(t)
	}
	switch u := t.Underlying().(type) {
	case *types.Basic:
		switch {
		case u.Info()&types.IsBoolean != 0:
			return e.c.Bool(constant.BoolVal(c.Value))
		case u.Info()&types.IsInteger != 0:
			w, _ := intWidth(u)
			if u.Kind() == types.UntypedRune {
				w = 32
			}
			if v, ok := constant.Int64Val(constant.ToInt(c.Value)); ok {
				return e.c.Const(w, uint64(v))
			}
			v, _ := constant.Uint64Val(constant.ToInt(c.Value))
			return e.c.Const(w, v)
		case u.Info()&types.IsString != 0:
			return e.strConst(constant.StringVal(c.Value))
		case u.Info()&(types.IsFloat|types.IsComplex) != 0:
			return OpaqueV{"floatconst:" + c.Value.String()}
		}
	}
	panic(e.abort("unsupported constant %v : %v", c, t))
}

func (e *Exec) globalPtr(st *State, g *ssa.Global) Ptr {
	id, ok := e.globals[g]
	if !ok {
		id = -(len(e.globals) + 1)
		e.globals[g] = id
	}
	if _, ok := st.heap[id]; !ok {
		st.heap[id] = e.zero(g.Type().(*types.Pointer).Elem())
	}
	e.ensureInit(st, g.Pkg)
	return Ptr{obj: id}
}

func (e *Exec) val(st *State, v ssa.Value) Value {
	switch x := v.(type) {
	case *ssa.Const:
		return e.constValue(x)
	case *ssa.Global:
		return e.globalPtr(st, x)
	case *ssa.Function:
		return FuncV{fn: x}
	case *ssa.Builtin:
		return FuncV{intrinsic: "builtin:" + x.Name()}
	}
	f := st.top()
	if r, ok := f.env[v]; ok {
		return r
	}
	panic(e.abort("internal: no value for %s (%T) in %s", v.Name(), v, f.fn))
}

func (e *Exec) term(st *State, v ssa.Value) *Term {
	x := e.val(st, v)
	t, ok := x.(*Term)
	if !ok {
		panic(e.abort("expected scalar for %s, got %T", v.Name(), x))
	}
	return t
}

// ---------- package initialisation ----------

var initDeny = []string{"unicode", "net", "net/http", "crypto/", "reflect", "runtime", "syscall", "internal/", "log", "fmt", "time", "sync", "regexp", "mime", "golang.org/x/", "github.com/pion/webrtc", "github.com/pion/ice", "github.com/pion/dtls", "github.com/pion/sctp", "github.com/pion/srtp", "github.com/pion/interceptor", "github.com/gorilla", "vendor/", "encoding/json", "math/rand", "math/big", "compress/", "html", "text/", "bufio", "context", "github.com/pion/stun", "github.com/pion/turn", "github.com/pion/mdns", "github.com/pion/datachannel", "github.com/pion/transport", "github.com/pion/logging", "github.com/google", "github.com/at-wat", "github.com/wlynxg", "hash", "embed", "database", "archive", "debug", "go/", "testing", "flag", "expvar", "image", "plugin", "os/exec", "os/signal", "os/user"}

func initDenied(path string) bool {
	if path == "internal/oserror" || path == "io/fs" {
		return false
	}
	for _, d := range initDeny {
		if path == d || (strings.HasSuffix(d, "/") && strings.HasPrefix(path, d)) || strings.HasPrefix(path, d+"/") {
			return true
		}
	}
	return false
}

func (e *Exec) ensureInit(st *State, pkg *ssa.Package) {
	if pkg == nil || st.inited[pkg] {
		return
	}
	st.inited[pkg] = true
	if initDenied(pkg.Pkg.Path()) {
		return
	}
	if e.wk != nil && !e.buildingSnap {
		known := false
		for _, p := range e.wk.order {
			if p == pkg {
				known = true
			}
		}
		if !known {
			e.wk.order = append(e.wk.order, pkg)
			if e.wk.snap != nil {
				e.wk.snap.valid = false
			}
		}
	}
	init := pkg.Func("init")
	if init == nil || len(init.Blocks) == 0 {
		return
	}
	saved := e.curInstr
	st.tolerant++
	func() {
		defer func() {
			if r := recover(); r != nil {
				if a, ok := r.(abortSignal); ok {
					e.res.note("package init of " + pkg.Pkg.Path() + " incomplete: " + a.msg)
					// drop the frames of the failed initialiser
					for len(st.frames) > 0 && !st.top().marker {
						st.frames = st.frames[:len(st.frames)-1]
					}
					if len(st.frames) > 0 {
						st.frames = st.frames[:len(st.frames)-1]
					}
					return
				}
				panic(r)
			}
		}()
		e.runNested(st, FuncV{fn: init}, nil)
	}()
	st.tolerant--
	e.curInstr = saved
}

// runNested runs a call to completion on this state without allowing forks
// to escape (used for package initialisers).
func (e *Exec) runNested(st *State, fv FuncV, args []Value) Value {
	m := &Frame{marker: true}
	st.frames = append(st.frames, m)
	e.pushCall(st, fv, args, nil)
	depth := len(st.frames) - 1 // index of first callee frame
	steps := 0
	for len(st.frames) > depth {
		e.stepTolerant(st, depth)
		steps++
		if steps > 2000000 {
			panic(e.abort("nested run exceeded step limit"))
		}
	}
	st.frames = st.frames[:len(st.frames)-1] // pop marker
	return m.result
}

// ---------- main loop ----------

func (e *Exec) run(init *State) {
	e.work = append(e.work, init)
	for len(e.work) > 0 {
		st := e.work[len(e.work)-1]
		e.work = e.work[:len(e.work)-1]
		e.runState(st)
		if e.res.Aborted != "" {
			return
		}
		if time.Now().After(e.cfg.Deadline) {
			e.res.Aborted = "wall-clock budget of the check exhausted"
			return
		}
		if e.cfg.MaxPaths > 0 && e.res.Paths > e.cfg.MaxPaths {
			e.res.Aborted = fmt.Sprintf("path budget %d exceeded", e.cfg.MaxPaths)
			return
		}
	}
}

func (e *Exec) runState(st *State) {
	if e.runTo(st, 0, &e.work) {
		e.res.Paths++
		if st.imprecise {
			e.res.ImprecisePaths++
		}
	}
}

// runTo steps st until its stack has shrunk to stopDepth frames; forks go to
// *work.  Returns true if st itself got there (false: it forked, died or the
// run was aborted).
func (e *Exec) runTo(st *State, stopDepth int, work *[]*State) (finished bool) {
	e.curState = st
	defer func() {
		if r := recover(); r != nil {
			finished = false
			switch s := r.(type) {
			case forkSignal:
				a := st
				b := st.clone()
				a.pc = append(a.pc, s.cond)
				a.decided.m[s.cond.id] = 1
				b.pc = append(b.pc, e.c.Not(s.cond))
				b.decided.m[s.cond.id] = 0
				a.model, b.model = s.mt, s.mf
				e.res.Forks++
				if os.Getenv("GOSMT_PROFILE") != "" {
					e.res.note("fork at " + e.posStr())
				}
				*work = append(*work, b, a)
			case forkValuesSignal:
				e.res.Forks += len(s.vals) - 1
				if os.Getenv("GOSMT_PROFILE") != "" {
					e.res.note(fmt.Sprintf("value-fork x%d (%s) at %s", len(s.vals), s.why, e.posStr()))
				}
				for i := len(s.vals) - 1; i >= 0; i-- {
					var n *State
					if i == 0 {
						n = st
					} else {
						n = st.clone()
					}
					n.model = nil
					n.pc = append(n.pc, e.c.Eq(s.t, e.c.Const(s.t.sort.w, s.vals[i])))
					n.decided.m[s.t.id] = s.vals[i]
					*work = append(*work, n)
				}
			case choiceSignal:
				// distribute or fork locally
				if e.spawn != nil && len(st.choices) < e.splitDepth() && st.depth == 0 && stopDepth == 0 {
					for k := 0; k < s.n; k++ {
						e.spawn(append(append([]int(nil), st.choices...), k))
					}
					e.res.Spawned += s.n
					return
				}
				for k := s.n - 1; k >= 0; k-- {
					var n *State
					if k == 0 {
						n = st
					} else {
						n = st.clone()
					}
					n.choices = append(n.choices, k)
					*work = append(*work, n)
				}
			case deadSignal:
				e.res.Dead++
			case abortSignal:
				e.res.Aborted = s.msg
			default:
				fmt.Fprintf(os.Stderr, "engine panic at %s: %v\n", e.posStr(), r)
				panic(r)
			}
		}
	}()
	n := 0
	for len(st.frames) > stopDepth {
		e.step(st)
		n++
		if n&0xFFFF == 0 && time.Now().After(e.cfg.Deadline) {
			panic(abortSignal{"wall-clock budget of the check exhausted"})
		}
	}
	return true
}

func (e *Exec) step(st *State) {
	f := st.top()
	if f.ip >= len(f.block.Instrs) {
		panic(e.abort("internal: fell off block"))
	}
	in := f.block.Instrs[f.ip]
	e.curInstr = in
	e.fnHits[f.fn]++
	e.res.Steps++
	if e.cfg.Trace {
		fmt.Fprintf(os.Stderr, "%*s%s: %s\n", len(st.frames), "", f.fn.Name(), in.String())
	}
	e.exec(st, f, in)
}

func (e *Exec) jump(st *State, f *Frame, to *ssa.BasicBlock) {
	f.visits[to.Index]++
	limit := st.unwind
	if limit == 0 {
		limit = 5000
	}
	if f.visits[to.Index] > limit {
		panic(e.abort("unwinding bound %d reached in %s block %d", limit, f.fn, to.Index))
	}
	f.prev = f.block
	f.block = to
	f.ip = 0
}

func (e *Exec) setv(f *Frame, v ssa.Value, x Value) {
	f.env[v] = x
}

func (e *Exec) pushCall(st *State, fv FuncV, args []Value, retTo ssa.Value) {
	fn := fv.fn
	if fn == nil {
		panic(e.abort("call of nil function"))
	}
	if len(fn.Blocks) == 0 {
		panic(e.abort("unmodelled function without body: %s", fn.String()))
	}
	if len(st.frames) > 200 {
		panic(e.abort("call depth exceeded"))
	}
	nf := &Frame{fn: fn, block: fn.Blocks[0], env: make(map[ssa.Value]Value), visits: map[int]int{}, retTo: retTo}
	if len(args) != len(fn.Params) {
		panic(e.abort("internal: arity mismatch calling %s: %d vs %d", fn, len(args), len(fn.Params)))
	}
	for i, p := range fn.Params {
		nf.env[p] = args[i]
	}
	for i, fvv := range fn.FreeVars {
		nf.env[fvv] = fv.binds[i]
	}
	st.frames = append(st.frames, nf)
}

func (e *Exec) doReturn(st *State, f *Frame, res Value) {
	st.frames = st.frames[:len(st.frames)-1]
	if len(st.frames) == 0 {
		return
	}
	caller := st.top()
	if caller.marker {
		caller.result = res
		return
	}
	if f.inDefer {
		return // caller re-executes its RunDefers / continues return sequence
	}
	if f.retTo != nil {
		caller.env[f.retTo] = res
	}
	caller.ip++
}

// ---------- instructions ----------

func (e *Exec) exec(st *State, f *Frame, in ssa.Instruction) {
	switch x := in.(type) {
	case *ssa.DebugRef:
		f.ip++
	case *ssa.Alloc:
		p := e.alloc(st, e.zero(x.Type().(*types.Pointer).Elem()))
		if len(e.ob.guards) > 0 && x.Heap {
			if st.allocFn == nil {
				st.allocFn = map[int]*ssa.Function{}
			}
			st.allocFn[p.obj] = f.fn
		}
		e.setv(f, x, p)
		f.ip++
	case *ssa.BinOp:
		e.setv(f, x, e.binop(st, x.Op, e.val(st, x.X), e.val(st, x.Y), x.X.Type(), x.Y.Type()))
		f.ip++
	case *ssa.UnOp:
		e.setv(f, x, e.unop(st, x))
		f.ip++
	case *ssa.Phi:
		// evaluate all phis of the block simultaneously
		blk := f.block
		idx := -1
		for i, p := range blk.Preds {
			if p == f.prev {
				idx = i
				break
			}
		}
		if idx < 0 {
			panic(e.abort("internal: phi without predecessor"))
		}
		n := 0
		var vals []Value
		for _, ins := range blk.Instrs {
			ph, ok := ins.(*ssa.Phi)
			if !ok {
				break
			}
			vals = append(vals, e.val(st, ph.Edges[idx]))
			n++
		}
		for i := 0; i < n; i++ {
			f.env[blk.Instrs[i].(*ssa.Phi)] = vals[i]
		}
		f.ip += n
	case *ssa.If:
		c := e.term(st, x.Cond)
		if !c.IsConst() {
			if e.tryIfConvert(st, f, x, c) {
				return
			}
		}
		if e.decide(st, c) {
			e.jump(st, f, f.block.Succs[0])
		} else {
			e.jump(st, f, f.block.Succs[1])
		}
	case *ssa.Jump:
		e.jump(st, f, f.block.Succs[0])
	case *ssa.Return:
		var res Value
		switch len(x.Results) {
		case 0:
		case 1:
			res = e.val(st, x.Results[0])
		default:
			tv := make([]Value, len(x.Results))
			for i, r := range x.Results {
				tv[i] = e.val(st, r)
			}
			res = TupleV{tv}
		}
		e.doReturn(st, f, res)
	case *ssa.RunDefers:
		if n := len(f.defers); n > 0 {
			d := f.defers[n-1]
			f.defers = f.defers[:n-1]
			e.callDeferred(st, d)
			return
		}
		f.ip++
	case *ssa.Defer:
		d := e.prepareDeferred(st, &x.Call)
		f.defers = append(f.defers, d)
		f.ip++
	case *ssa.Go:
		e.doGo(st, f, x)
	case *ssa.Panic:
		v := e.val(st, x.X)
		msg := "explicit panic"
		if iv, ok := v.(IfaceV); ok {
			if s, ok := iv.v.(*StrV); ok {
				if cs, ok := strConcrete(s); ok {
					msg = "panic: " + cs
				}
			}
		}
		e.checkPanic(st, e.c.True, msg)
	case *ssa.Call:
		e.call(st, f, x, &x.Call)
	case *ssa.Store:
		p := e.ptr(st, x.Addr, "store")
		val := e.val(st, x.Val)
		if len(e.ob.guards) > 0 {
			e.locksetAccess(st, f, x.Addr, p, val, true)
		}
		e.store(st, p, val)
		f.ip++
	case *ssa.FieldAddr:
		p := e.ptr(st, x.X, "field access")
		np := p.extend(Sel{k: x.Field})
		if len(e.ob.guards) > 0 {
			e.locksetFieldAddr(st, f, x, p)
		}
		e.setv(f, x, np)
		f.ip++
	case *ssa.Field:
		sv := e.val(st, x.X).(*StructV)
		e.setv(f, x, sv.f[x.Field])
		f.ip++
	case *ssa.IndexAddr:
		e.indexAddr(st, f, x)
	case *ssa.Index:
		e.index(st, f, x)
	case *ssa.Lookup:
		e.lookup(st, f, x)
	case *ssa.Slice:
		e.slice(st, f, x)
	case *ssa.MakeSlice:
		n := e.concretize(st, e.toInt64(e.term(st, x.Len)), "make len")
		cp := e.concretize(st, e.toInt64(e.term(st, x.Cap)), "make cap")
		if int64(n) < 0 || int64(cp) < int64(n) || cp > 1<<24 {
			e.checkPanic(st, e.c.True, "makeslice: len out of range")
		}
		e.setv(f, x, e.newSlice(st, x.Type().Underlying().(*types.Slice).Elem(), int(n), int(cp)))
		f.ip++
	case *ssa.MakeMap:
		p := e.alloc(st, &MapObj{})
		e.setv(f, x, MapV{obj: p.obj})
		f.ip++
	case *ssa.MakeChan:
		n := e.concretize(st, e.toInt64(e.term(st, x.Size)), "chan size")
		p := e.alloc(st, &ChanObj{cap: int(n)})
		e.setv(f, x, ChanV{obj: p.obj})
		f.ip++
	case *ssa.MakeClosure:
		fn := x.Fn.(*ssa.Function)
		b := make([]Value, len(x.Bindings))
		for i, bv := range x.Bindings {
			b[i] = e.val(st, bv)
		}
		e.setv(f, x, FuncV{fn: fn, binds: b})
		f.ip++
	case *ssa.MakeInterface:
		e.setv(f, x, IfaceV{t: x.X.Type(), v: e.val(st, x.X)})
		f.ip++
	case *ssa.ChangeInterface:
		e.setv(f, x, e.val(st, x.X))
		f.ip++
	case *ssa.ChangeType:
		e.setv(f, x, e.val(st, x.X))
		f.ip++
	case *ssa.Convert:
		e.setv(f, x, e.convert(st, e.val(st, x.X), x.X.Type(), x.Type()))
		f.ip++
	case *ssa.MultiConvert:
		e.setv(f, x, e.convert(st, e.val(st, x.X), x.X.Type(), x.Type()))
		f.ip++
	case *ssa.SliceToArrayPointer:
		s := e.val(st, x.X).(SliceV)
		n := int(x.Type().(*types.Pointer).Elem().Underlying().(*types.Array).Len())
		e.checkPanic(st, e.c.Cmp(OpSlt, s.len, e.c.Const(64, uint64(n))), "slice to array pointer: length too short")
		if s.off != 0 || s.cap != n && n != 0 {
			// a pointer into the middle of a backing array: not representable as a path
			panic(e.abort("SliceToArrayPointer into the middle of an array"))
		}
		e.setv(f, x, s.base)
		f.ip++
	case *ssa.Extract:
		tv := e.val(st, x.Tuple).(TupleV)
		e.setv(f, x, tv.v[x.Index])
		f.ip++
	case *ssa.TypeAssert:
		e.typeAssert(st, f, x)
	case *ssa.MapUpdate:
		e.mapUpdate(st, e.val(st, x.Map).(MapV), e.val(st, x.Key), e.val(st, x.Value))
		f.ip++
	case *ssa.Range:
		e.rangeInit(st, f, x)
	case *ssa.Next:
		e.rangeNext(st, f, x)
	case *ssa.Send:
		e.chanSend(st, f, x)
	case *ssa.Select:
		e.doSelect(st, f, x)
	default:
		panic(e.abort("unsupported instruction %T: %s", in, in))
	}
}

func (e *Exec) ptr(st *State, v ssa.Value, what string) Ptr {
	p, ok := e.val(st, v).(Ptr)
	if !ok {
		panic(e.abort("expected pointer for %s, got %T", v.Name(), e.val(st, v)))
	}
	if p.IsNil() {
		e.checkPanic(st, e.c.True, "nil pointer dereference ("+what+")")
	}
	return p
}

func (e *Exec) toInt64(t *Term) *Term {
	if t.sort.w == 64 {
		return t
	}
	panic(e.abort("internal: toInt64 on width %d without signedness", t.sort.w))
}

func (e *Exec) extendIndex(t *Term, typ types.Type) *Term {
	w, signed, ok := isInt(typ)
	if !ok {
		panic(e.abort("index of non-integer type %v", typ))
	}
	if w == 64 {
		return t
	}
	if signed {
		return e.c.Sext(64, t)
	}
	return e.c.Zext(64, t)
}

// inBounds check: panics recorded when idx<0 || idx>=n
func (e *Exec) boundsCheck(st *State, idx *Term, n *Term, what string) {
	oob := e.c.Not(e.c.Cmp(OpUlt, idx, n)) // unsigned compare covers negative
	e.checkPanic(st, oob, what)
}

func (e *Exec) indexAddr(st *State, f *Frame, x *ssa.IndexAddr) {
	idx := e.extendIndex(e.term(st, x.Index), x.Index.Type())
	switch xv := e.val(st, x.X).(type) {
	case SliceV:
		e.boundsCheck(st, idx, xv.len, "index out of range")
		if xv.base.IsNil() {
			panic(deadSignal{"index of nil slice"})
		}
		e.setv(f, x, e.sliceElemPtr(xv, idx))
	case Ptr: // *array
		if xv.IsNil() {
			e.checkPanic(st, e.c.True, "nil pointer dereference (array index)")
		}
		n := x.X.Type().Underlying().(*types.Pointer).Elem().Underlying().(*types.Array).Len()
		e.boundsCheck(st, idx, e.c.Const(64, uint64(n)), "index out of range")
		if idx.IsConst() {
			e.setv(f, x, xv.extend(Sel{k: int(idx.val)}))
		} else {
			e.setv(f, x, xv.extend(Sel{sym: idx}))
		}
	default:
		panic(e.abort("IndexAddr on %T", xv))
	}
	f.ip++
}

func (e *Exec) index(st *State, f *Frame, x *ssa.Index) {
	idx := e.extendIndex(e.term(st, x.Index), x.Index.Type())
	switch xv := e.val(st, x.X).(type) {
	case *ArrayV:
		e.boundsCheck(st, idx, e.c.Const(64, uint64(len(xv.e))), "index out of range")
		if idx.IsConst() {
			e.setv(f, x, xv.e[idx.val])
		} else {
			e.setv(f, x, e.loadPath(st, xv, []Sel{{sym: idx}}))
		}
	case *StrV:
		e.setv(f, x, e.strIndex(st, xv, idx))
	default:
		panic(e.abort("Index on %T", xv))
	}
	f.ip++
}

func (e *Exec) strIndex(st *State, s *StrV, idx *Term) *Term {
	e.boundsCheck(st, idx, e.c.Const(64, uint64(len(s.b))), "string index out of range")
	if idx.IsConst() {
		return s.b[idx.val]
	}
	var acc *Term
	for i := len(s.b) - 1; i >= 0; i-- {
		if acc == nil {
			acc = s.b[i]
			continue
		}
		acc = e.c.Ite(e.c.Eq(idx, e.c.Const(64, uint64(i))), s.b[i], acc)
	}
	if acc == nil {
		panic(deadSignal{"index of empty string"})
	}
	return acc
}

func (e *Exec) lookup(st *State, f *Frame, x *ssa.Lookup) {
	switch xv := e.val(st, x.X).(type) {
	case *StrV:
		idx := e.extendIndex(e.term(st, x.Index), x.Index.Type())
		e.setv(f, x, e.strIndex(st, xv, idx))
	case MapV:
		v, ok := e.mapLookup(st, xv, e.val(st, x.Index))
		if !ok {
			v = e.zero(x.X.Type().Underlying().(*types.Map).Elem())
		}
		if x.CommaOk {
			e.setv(f, x, TupleV{[]Value{v, e.c.Bool(ok)}})
		} else {
			e.setv(f, x, v)
		}
	default:
		panic(e.abort("Lookup on %T", xv))
	}
	f.ip++
}

func (e *Exec) slice(st *State, f *Frame, x *ssa.Slice) {
	xv := e.val(st, x.X)
	var lo, hi, max *Term
	if x.Low != nil {
		lo = e.extendIndex(e.term(st, x.Low), x.Low.Type())
	}
	if x.High != nil {
		hi = e.extendIndex(e.term(st, x.High), x.High.Type())
	}
	if x.Max != nil {
		max = e.extendIndex(e.term(st, x.Max), x.Max.Type())
	}
	zero := e.c.Const(64, 0)
	if lo == nil {
		lo = zero
	}
	switch s := xv.(type) {
	case *StrV:
		n := e.c.Const(64, uint64(len(s.b)))
		if hi == nil {
			hi = n
		}
		e.checkPanic(st, e.c.Not(e.c.Cmp(OpUle, hi, n)), "slice bounds out of range (string, high)")
		e.checkPanic(st, e.c.Not(e.c.Cmp(OpUle, lo, hi)), "slice bounds out of range (string, low>high)")
		l := int(e.concretize(st, lo, "string slice low"))
		h := int(e.concretize(st, hi, "string slice high"))
		e.setv(f, x, &StrV{s.b[l:h]})
	case SliceV:
		capT := e.c.Const(64, uint64(s.cap))
		if hi == nil {
			hi = s.len
		}
		if max != nil {
			e.checkPanic(st, e.c.Not(e.c.Cmp(OpUle, max, capT)), "slice bounds out of range (max>cap)")
			e.checkPanic(st, e.c.Not(e.c.Cmp(OpUle, hi, max)), "slice bounds out of range (high>max)")
		} else {
			e.checkPanic(st, e.c.Not(e.c.Cmp(OpUle, hi, capT)), "slice bounds out of range (high>cap)")
		}
		e.checkPanic(st, e.c.Not(e.c.Cmp(OpUle, lo, hi)), "slice bounds out of range (low>high)")
		l := int(e.concretize(st, lo, "slice low"))
		ncap := s.cap - l
		if max != nil {
			ncap = int(e.concretize(st, max, "slice max")) - l
		}
		if s.base.IsNil() {
			e.setv(f, x, s)
		} else {
			e.setv(f, x, SliceV{base: s.base, off: s.off + l, len: e.c.Bin(OpSub, hi, e.c.Const(64, uint64(l))), cap: ncap})
		}
	case Ptr: // *array
		if s.IsNil() {
			e.checkPanic(st, e.c.True, "nil pointer dereference (slice of *array)")
		}
		n := int(x.X.Type().Underlying().(*types.Pointer).Elem().Underlying().(*types.Array).Len())
		capT := e.c.Const(64, uint64(n))
		if hi == nil {
			hi = capT
		}
		if max != nil {
			e.checkPanic(st, e.c.Not(e.c.Cmp(OpUle, max, capT)), "slice bounds out of range (max>cap)")
			e.checkPanic(st, e.c.Not(e.c.Cmp(OpUle, hi, max)), "slice bounds out of range (high>max)")
		} else {
			e.checkPanic(st, e.c.Not(e.c.Cmp(OpUle, hi, capT)), "slice bounds out of range (high>len)")
		}
		e.checkPanic(st, e.c.Not(e.c.Cmp(OpUle, lo, hi)), "slice bounds out of range (low>high)")
		l := int(e.concretize(st, lo, "slice low"))
		ncap := n - l
		if max != nil {
			ncap = int(e.concretize(st, max, "slice max")) - l
		}
		e.setv(f, x, SliceV{base: s, off: l, len: e.c.Bin(OpSub, hi, e.c.Const(64, uint64(l))), cap: ncap})
	default:
		panic(e.abort("Slice on %T", xv))
	}
	f.ip++
}

func (e *Exec) typeAssert(st *State, f *Frame, x *ssa.TypeAssert) {
	iv, ok := e.val(st, x.X).(IfaceV)
	if !ok {
		panic(e.abort("TypeAssert on %T", e.val(st, x.X)))
	}
	var res Value
	okv := false
	if iv.t != nil {
		if types.IsInterface(x.AssertedType) {
			it := x.AssertedType.Underlying().(*types.Interface)
			if types.Implements(iv.t, it) {
				okv = true
				res = iv
			}
		} else if types.Identical(iv.t, x.AssertedType) {
			okv = true
			res = iv.v
		}
	}
	if x.CommaOk {
		if !okv {
			res = e.zero(x.AssertedType)
		}
		e.setv(f, x, TupleV{[]Value{res, e.c.Bool(okv)}})
	} else {
		if !okv {
			e.checkPanic(st, e.c.True, fmt.Sprintf("interface conversion: %v is not %v", iv.t, x.AssertedType))
		}
		e.setv(f, x, res)
	}
	f.ip++
}

func (e *Exec) doGo(st *State, f *Frame, x *ssa.Go) {
	name := "?"
	if c := x.Call.StaticCallee(); c != nil {
		name = c.String()
	}
	mode := e.ob.GoMode(name)
	switch mode {
	case "skip":
		e.res.noteOnce("go statement skipped (not executed): " + name)
		f.ip++
	case "inline":
		// execute like a call whose result is discarded
		e.call(st, f, nil, &x.Call)
	default:
		panic(e.abort("go statement %s: no policy", name))
	}
}

var _ = token.NoPos

func (e *Exec) splitDepth() int {
	if e.ob.SplitDepth > 0 {
		return e.ob.SplitDepth
	}
	return e.cfg.SplitDepth
}

var modelVarLimit = func() int {
	n := 40
	if s := os.Getenv("GOSMT_MODELVARS"); s != "" {
		fmt.Sscanf(s, "%d", &n)
	}
	return n
}()

// stepTolerant: one step of a package initialiser.  If anything below the
// initialiser's own frame cannot be modelled, the whole call is abandoned:
// the stack is unwound to the initialiser, the offending top-level
// instruction is skipped (its result is the zero value) and the remaining
// package-level variables still get their initial values.
func (e *Exec) stepTolerant(st *State, base int) {
	defer func() {
		if r := recover(); r != nil {
			a, ok := r.(abortSignal)
			if !ok {
				panic(r)
			}
			if len(st.frames) <= base {
				panic(a)
			}
			st.frames = st.frames[:base+1]
			f := st.top()
			if f.block == nil || f.ip >= len(f.block.Instrs) {
				panic(a)
			}
			in := f.block.Instrs[f.ip]
			switch in.(type) {
			case *ssa.If, *ssa.Return, *ssa.Jump:
				panic(a) // cannot skip control flow
			}
			if val, ok := in.(ssa.Value); ok {
				func() {
					defer func() { recover() }()
					f.env[val] = e.zero(val.Type())
				}()
			}
			f.ip++
			e.res.note("package initialiser: skipped a top-level instruction: " + a.msg)
		}
	}()
	e.step(st)
}

// prepareInit installs (building it first if needed) the worker's snapshot of
// the initialised packages into the item's initial state.
func (e *Exec) prepareInit(st *State) {
	w := e.wk
	if w == nil || len(w.order) == 0 {
		return
	}
	if w.snap == nil || !w.snap.valid {
		// build in a private context with a private result sink
		be := &Exec{c: NewCtx(), prog: e.prog, sol: e.sol, ob: e.ob, zeroCache: map[types.Type]Value{}, globals: w.globals,
			inputs: map[string]*Term{}, ghostSel: map[string]*Term{}, res: newObResult("init"), cfg: e.cfg, funcsHit: map[string]int{}, fnHits: map[*ssa.Function]int{},
			mergeInfo: map[*ssa.Function]*mergeable{}, ipdomCache: map[*ssa.Function][]int{}, noConvert: map[*ssa.If]bool{}, regionOK: map[*ssa.If]bool{}, buildingSnap: true}
		bs := &State{heap: map[int]Value{}, decided: &decidedLayer{m: map[int]uint64{}}, inited: map[*ssa.Package]bool{}, held: map[string]bool{}}
		ok := true
		func() {
			defer func() {
				if r := recover(); r != nil {
					ok = false
				}
			}()
			for _, p := range w.order {
				be.ensureInit(bs, p)
			}
		}()
		if !ok || len(bs.frames) != 0 {
			w.snap = &initSnapshot{valid: true, heap: nil}
			return
		}
		w.snap = &initSnapshot{order: append([]*ssa.Package(nil), w.order...), heap: bs.heap, nextObj: bs.nextObj, inited: bs.inited, notes: be.res.Notes, valid: true}
	}
	if w.snap.heap == nil {
		return
	}
	if !w.snap.restore(e, st) {
		w.snap.heap = nil
	}
}

// runNestedStrict runs a small callee to completion inside the current
// instruction (no tolerance; a fork inside it aborts the obligation).
func (e *Exec) runNestedStrict(st *State, fv FuncV, args []Value) Value {
	saved := e.curInstr
	m := &Frame{marker: true}
	st.frames = append(st.frames, m)
	e.pushCall(st, fv, args, nil)
	depth := len(st.frames) - 1
	func() {
		defer func() {
			if r := recover(); r != nil {
				switch r.(type) {
				case forkSignal, forkValuesSignal, choiceSignal:
					panic(e.abort("symbolic branch inside a nested helper call (%s)", fv.fn))
				}
				panic(r)
			}
		}()
		steps := 0
		for len(st.frames) > depth {
			e.step(st)
			steps++
			if steps > 100000 {
				panic(e.abort("nested helper call exceeded its step limit"))
			}
		}
	}()
	st.frames = st.frames[:len(st.frames)-1]
	e.curInstr = saved
	return m.result
}
