package main

// Lockset obligations: every access to a guarded field (and to the objects
// reachable through it: slice backing arrays, maps, pointees) must happen
// while the guarding mutex is held by the executing goroutine.  Accesses made
// by harness code (files zz_verif*) are exempt: the harness plays the role of
// a quiescent observer.

import (
	"fmt"
	"go/types"
	"path/filepath"
	"strings"

	"golang.org/x/tools/go/ssa"
)

func (e *Exec) inHarnessCode(f *Frame) bool {
	if f.fn == nil {
		return true
	}
	fn := f.fn
	for fn.Parent() != nil {
		fn = fn.Parent()
	}
	file := filepath.Base(e.prog.Fset.Position(fn.Pos()).Filename)
	return strings.HasPrefix(file, "zz_verif")
}

func typeFullName(t types.Type) string {
	return types.TypeString(t, func(p *types.Package) string { return p.Path() })
}

func (e *Exec) locksetFieldAddr(st *State, f *Frame, x *ssa.FieldAddr, base Ptr) {
	pt, ok := x.X.Type().Underlying().(*types.Pointer)
	if !ok {
		return
	}
	g := e.ob.guards[typeFullName(pt.Elem())]
	if g == nil {
		return
	}
	stt := pt.Elem().Underlying().(*types.Struct)
	name := stt.Field(x.Field).Name()
	if name == g.Mutex {
		return
	}
	for _, ex := range g.Except {
		if ex == name {
			return
		}
	}
	covered := false
	for _, fl := range g.Fields {
		if fl == "*" || fl == name {
			covered = true
		}
	}
	if !covered {
		return
	}
	mi := -1
	for i := 0; i < stt.NumFields(); i++ {
		if stt.Field(i).Name() == g.Mutex {
			mi = i
		}
	}
	if mi < 0 {
		panic(e.abort("guard: no field %s in %s", g.Mutex, g.Type))
	}
	key := ptrKey(base.extend(Sel{k: mi}))
	if f.guarded == nil {
		f.guarded = map[ssa.Value]string{}
	}
	f.guarded[x] = key + "|" + g.Type + "." + name
}

func (e *Exec) locksetAccess(st *State, f *Frame, addr ssa.Value, p Ptr, val Value, isStore bool) {
	what := ""
	key := ""
	if gk, ok := f.guarded[addr]; ok {
		i := strings.Index(gk, "|")
		key, what = gk[:i], gk[i+1:]
		// objects reachable through the guarded field inherit the guard (unless declared immutable snapshots)
		if obj := valueObj(val); obj != 0 && !e.shallowField(what) {
			if st.guardOf == nil {
				st.guardOf = map[int]string{}
			}
			st.guardOf[obj] = gk
		}
	} else if gk, ok := st.guardOf[p.obj]; ok {
		i := strings.Index(gk, "|")
		key, what = gk[:i], "object reached through "+gk[i+1:]
		if obj := valueObj(val); obj != 0 && isStore {
			st.guardOf[obj] = gk
		}
	} else {
		return
	}
	if e.inHarnessCode(f) || st.held[key] || st.tolerant > 0 {
		return
	}
	if g := e.ob.guards[strings.SplitN(strings.TrimPrefix(what, "object reached through "), ".", -1)[0]]; g != nil {
		_ = g
	}
	for _, gd := range e.ob.Guards {
		for _, ex := range gd.ExceptFuncs {
			if f.fn != nil && f.fn.String() == ex {
				return
			}
		}
	}
	if fn, ok := st.allocFn[p.obj]; ok && fn == f.fn {
		return // constructor: the object has not been published yet
	}
	kind := "read"
	if isStore {
		kind = "write"
	}
	msg := fmt.Sprintf("unsynchronised %s of %s: guarding mutex not held", kind, what)
	for _, o := range e.res.Failures {
		if o.Kind == "race" && o.Msg == msg && o.Pos == e.posStr() {
			return
		}
	}
	e.res.fail(Failure{Kind: "race", Msg: fmt.Sprintf("unsynchronised %s of %s: guarding mutex not held", kind, what), Pos: e.posStr(),
		Model: e.pathModel(st), Choices: append([]int(nil), st.choices...), Stack: e.stackStrs(st)})
}

func valueObj(v Value) int {
	switch x := v.(type) {
	case Ptr:
		return x.obj
	case SliceV:
		return x.base.obj
	case MapV:
		return x.obj
	}
	return 0
}

// pathModel: a satisfying assignment of the current path (inputs that drive execution here).
func (e *Exec) pathModel(st *State) Model {
	r, m := e.sol.Check(st.pc, nil, e.wantModel())
	if r != Sat || m == nil {
		return Model{}
	}
	return m
}

func (e *Exec) shallowField(what string) bool {
	for _, g := range e.ob.Guards {
		for _, f := range g.Shallow {
			if what == g.Type+"."+f {
				return true
			}
		}
	}
	return false
}


// Critical-section obligations (C16/C18): inside an operation (a function
// listed in Within), every call to one of Calls (the file read, the version
// check's stat, the file write) must happen while Mutex is held, and all of
// them in ONE critical section: the mutex is not released between the read
// that the decision is based on and the write.  A static path finding.
type Critical struct {
	Mutex  string   `json:"mutex"`
	Calls  []string `json:"calls"`
	Within []string `json:"within"`
}

func (e *Exec) checkCritical(st *State, callee string) {
	for _, cs := range e.ob.Critical {
		hit := false
		for _, c := range cs.Calls {
			if c == callee {
				hit = true
			}
		}
		if !hit {
			continue
		}
		var op *Frame
		for _, f := range st.frames {
			if f.fn == nil {
				continue
			}
			fn := f.fn.String()
			if f.fn.Origin() != nil {
				fn = f.fn.Origin().String()
			}
			for _, w := range cs.Within {
				if w == fn && op == nil {
					op = f
				}
			}
		}
		if op == nil {
			continue
		}
		held := false
		heldName := ""
		for k, h := range st.held {
			if h {
				for _, mn := range strings.Split(cs.Mutex, "|") {
					if st.heldNames[k] == mn {
						held = true
						heldName = mn
					}
				}
			}
		}
		msg := ""
		if !held {
			msg = fmt.Sprintf("%s called by %s without holding %s: the version check and the write are not atomic", callee, op.fn.Name(), cs.Mutex)
		} else {
			ep := st.lockEpochs[heldName]
			if op.critEpoch == 0 {
				op.critEpoch = ep
			} else if op.critEpoch != ep {
				msg = fmt.Sprintf("critical section split in %s: %s was released and re-acquired between the read of the definition and %s", op.fn.Name(), cs.Mutex, callee)
			}
		}
		if msg == "" {
			e.res.CritChecks++
			continue
		}
		dup := false
		for _, o := range e.res.Failures {
			if o.Kind == "race" && o.Msg == msg {
				dup = true
			}
		}
		if !dup {
			e.res.fail(Failure{Kind: "race", Msg: msg, Pos: e.posStr(), Model: e.pathModel(st), Choices: append([]int(nil), st.choices...), Stack: e.stackStrs(st)})
		}
	}
}
