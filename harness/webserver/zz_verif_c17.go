//go:build verif || verifreplay

package webserver

import (
	"io"
	"net/http"
	"net/url"
	"os"

	"github.com/jech/galene/group"
	"github.com/jech/galene/stats"
	"github.com/jech/galene/token"
	v "github.com/jech/galene/zzverif"
)

// ---- effect / disclosure log ----

type zzApiFx struct {
	name  string
	group string
	user  string
	write bool // modifies state (vs discloses)
}

var zzApi []zzApiFx

type zzAuthAsk struct {
	group, user string
	ok          bool
}

var zzAuth []zzAuthAsk
var zzIsAdmin, zzHasExplicit bool
var zzTokenExists, zzTokenForeign bool

func zzfx(name, g, u string, write bool) { zzApi = append(zzApi, zzApiFx{name, g, u, write}) }

// model of isAdminOrExplicitPassword: the credential check itself is a
// separate obligation (H_C17_IsAdmin); here its outcome is arbitrary: the
// caller is an administrator of whatever it asks about, or not; or it holds
// the explicit password of the user it asks about.
func zzIsAdminOrExplicit(groupname, user string, creds group.ClientCredentials) bool {
	ok := zzIsAdmin || (user != "" && zzHasExplicit)
	zzAuth = append(zzAuth, zzAuthAsk{groupname, user, ok})
	return ok
}

func zzCheckOrigin(w http.ResponseWriter, r *http.Request, admin bool) bool { return false }
func zzNotFound(w http.ResponseWriter)                                      { w.WriteHeader(http.StatusNotFound) }
func zzGetJSON(w http.ResponseWriter, r *http.Request, x any) bool          { return false }
func zzGetText(w http.ResponseWriter, r *http.Request) ([]byte, bool)       { return []byte("pw"), false }
func zzSendJSON(w http.ResponseWriter, r *http.Request, x any)              { zzfx("sendJSON", "", "", false) }

func zzGetDescriptionNames() ([]string, error) { zzfx("names", "", "", false); return nil, nil }
func zzGetSanitisedDescription(name string) (*group.Description, string, error) {
	zzfx("getdesc", name, "", false)
	return &group.Description{}, "\"t\"", nil
}
func zzGetDescription(name string) (*group.Description, error) {
	zzfx("getdesc-raw", name, "", false)
	return &group.Description{}, nil
}
func zzGetDescriptionTag(name string) (string, error) { return "\"t\"", nil }
func zzUpdateDescription(name, etag string, desc *group.Description) error {
	zzfx("updatedesc", name, "", true)
	return nil
}
func zzDeleteDescription(name, etag string) error { zzfx("deletedesc", name, "", true); return nil }
func zzGetUsers(g string) ([]string, string, error) {
	zzfx("users", g, "", false)
	return nil, "\"t\"", nil
}
func zzGetSanitisedUser(g, username string, wildcard bool) (group.UserDescription, string, error) {
	zzfx("getuser", g, username, false)
	return group.UserDescription{}, "\"t\"", nil
}
func zzGetUserTag(g, username string, wildcard bool) (string, error) { return "\"t\"", nil }
func zzDeleteUser(g, username string, wildcard bool, etag string) error {
	zzfx("deleteuser", g, username, true)
	return nil
}
func zzUpdateUser(g, username string, wildcard bool, etag string, user *group.UserDescription) error {
	zzfx("updateuser", g, username, true)
	return nil
}
func zzSetUserPassword(g, username string, wildcard bool, pw group.Password) error {
	zzfx("setpassword", g, username, true)
	return nil
}
func zzSetKeys(g string, keys []map[string]any) error { zzfx("setkeys", g, "", true); return nil }
func zzGetGroups() []stats.GroupStats                 { zzfx("stats", "", "", false); return nil }

func zzTokGet(t string) (*token.Stateful, string, error) {
	if !zzTokenExists {
		return nil, "", os.ErrNotExist // what the real token.Get returns for an unknown token
	}
	g := "g"
	if zzTokenForeign {
		g = "elsewhere"
	}
	return &token.Stateful{Token: t, Group: g}, "\"t\"", nil
}
func zzTokList(g string) ([]*token.Stateful, string, error) {
	zzfx("tokenlist", g, "", false)
	return nil, "\"t\"", nil
}
func zzTokUpdate(tok *token.Stateful, etag string) (*token.Stateful, error) {
	zzfx("tokenupdate", tok.Group, "", true)
	return tok, nil
}
func zzTokDelete(t string, etag string) error { zzfx("tokendelete", "", "", true); return nil }

// ---- response writer ----

type zzRW struct {
	h      http.Header
	status int
	body   int
}

func (w *zzRW) Header() http.Header         { return w.h }
func (w *zzRW) Write(b []byte) (int, error) { w.body += len(b); return len(b), nil }
func (w *zzRW) WriteHeader(s int) {
	if w.status == 0 {
		w.status = s
	}
}

type zzBody struct{}

func (zzBody) Read(p []byte) (int, error) { return 0, io.EOF }
func (zzBody) Close() error               { return nil }

var zzMethods = []string{"GET", "HEAD", "PUT", "POST", "DELETE", "OPTIONS", "PATCH"}

// endpoint shapes below /galene-api (tails are concrete; the group is "g")
var zzPaths = []string{
	"/v0/.stats", "/v0/.stats/x", "/v0/.groups/", "/v0/.groups/g", "/v0/.groups/g/", "/v0/.groups/g/sub",
	"/v0/.groups/g/.users/", "/v0/.groups/g/.users", "/v0/.groups/g/.users/u", "/v0/.groups/g/.users/u/.password", "/v0/.groups/g/.users/u/.other", "/v0/.groups/g/.users/u/.password/x",
	"/v0/.groups/g/.empty-user", "/v0/.groups/g/.empty-user/.password", "/v0/.groups/g/.empty-user/x",
	"/v0/.groups/g/.wildcard-user", "/v0/.groups/g/.wildcard-user/.password",
	"/v0/.groups/g/.keys", "/v0/.groups/g/.keys/x", "/v0/.groups/g/.tokens/", "/v0/.groups/g/.tokens", "/v0/.groups/g/.tokens/t", "/v0/.groups/g/.tokens/t/x",
	"/v0/.groups/g/.other", "/v0/.groups/.users/", "/v0/.other", "/v1/.groups/g", "/v0", "/",
}

// H_C17_Router: one request (any method x endpoint shape) with any outcome
// of the credential check: nothing is modified or disclosed unless an
// authorisation check for the SAME group succeeded (an administrator; or,
// for setting a password only, the user's own explicit password); refusals
// are 401 (or 404) and have no effect; a preflight has no effect; nothing panics.
func H_C17_Router() {
	zzApi, zzAuth = nil, nil
	method := zzMethods[v.Choice("method", len(zzMethods))]
	path := "/galene-api" + zzPaths[v.Choice("path", len(zzPaths))]
	cred := v.Choice("cred", 3) // 0 none, 1 administrator, 2 explicit password of the addressed user
	zzIsAdmin, zzHasExplicit = cred == 1, cred == 2
	tk := v.Choice("token", 3)
	zzTokenExists, zzTokenForeign = tk >= 1, tk == 2
	w := &zzRW{h: http.Header{}}
	r := &http.Request{Method: method, URL: &url.URL{Path: path}, Header: http.Header{}, Body: zzBody{}}

	apiHandler(w, r)

	granted := func(g, u string, needAdmin bool) bool {
		for _, a := range zzAuth {
			if a.ok && a.group == g && (zzIsAdmin || (!needAdmin && a.user == u && u != "")) {
				return true
			}
		}
		return false
	}
	for _, e := range zzApi {
		v.Assert(method != "OPTIONS", "a CORS preflight neither reads nor writes anything")
		switch e.name {
		case "sendJSON":
			v.Assert(len(zzAuth) > 0 && zzAuth[len(zzAuth)-1].ok, "nothing is sent without a successful authorisation")
		case "setpassword":
			v.Assert(granted(e.group, e.user, false), "a password is set only by an administrator of that group or by that very user presenting the current password")
		case "tokendelete":
			v.Assert(zzIsAdmin && zzTokenExists && !zzTokenForeign, "only an administrator deletes tokens, and only tokens of the addressed group")
		default:
			v.Assert(granted(e.group, "", true), "group data is read or modified only after authorisation as an administrator for that same group")
		}
		if e.name == "tokenupdate" {
			v.Assert(e.group == "g", "a token is created or updated only inside the addressed group")
		}
	}
	if cred == 0 {
		v.Assert(len(zzApi) == 0, "without credentials nothing is read or modified")
		v.Assert(method == "OPTIONS" || w.status == http.StatusUnauthorized || w.status == http.StatusNotFound, "and the answer is 401, or 404 for a path that does not exist")
	}
	v.Assert(method == "OPTIONS" || w.status != 0 || len(zzApi) > 0, "every request is answered")
	v.Reach("end")
}

// model of bcrypt.GenerateFromPassword (the hash itself is not this property's subject)
func zzBcrypt(password []byte, cost int) ([]byte, error) { return []byte("$2a$hash"), nil }

// ---- the credential check itself ----

func zzNoGlobalAdmin(username, password string) (bool, error) { return false, nil }
func zzNoGlobalToken(tok string) (bool, error)               { return false, nil }

var zzAdminDesc *group.Description

func zzGetDesc(name string) (*group.Description, error) {
	if name != "g" {
		return nil, os.ErrNotExist
	}
	return zzAdminDesc, nil
}

// H_C17_IsAdmin: isAdminOrExplicitPassword for a group with an
// administrator, an ordinary user, the empty-username entry and a wildcard
// user, against symbolic credentials: true iff the credentials are the
// administrator's, or (only when a user is named) that user's own password.
func H_C17_IsAdmin() {
	pa, pb, pe, pw := "A", "B", "E", "W"
	admin, _ := group.NewPermissions("admin")
	present, _ := group.NewPermissions("present")
	zzAdminDesc = &group.Description{
		Users: map[string]group.UserDescription{
			"adm": {Password: group.Password{Type: "plain", Key: &pa}, Permissions: admin},
			"bob": {Password: group.Password{Type: "plain", Key: &pb}, Permissions: present},
			"":    {Password: group.Password{Type: "plain", Key: &pe}, Permissions: present},
		},
		WildcardUser: &group.UserDescription{Password: group.Password{Type: "plain", Key: &pw}, Permissions: present},
	}
	users := []string{"adm", "bob", "", "zed"}
	var creds group.ClientCredentials
	cu := users[v.Choice("creduser", len(users))]
	if v.Choice("hascreds", 2) == 1 {
		creds.Username = &cu
		creds.Password = v.String("pw", 1)
	}
	about := users[v.Choice("about", len(users))] // "" = plain checkAdmin
	got := isAdminOrExplicitPassword("g", about, creds)
	isAdm := creds.Username != nil && cu == "adm" && creds.Password == "A"
	ownPw := about != "" && creds.Username != nil &&
		((about == "adm" && creds.Password == "A") || (about == "bob" && creds.Password == "B"))
	v.Assert(got == (isAdm || ownPw), "authorised iff administrator of the group, or (for a named user) presenting that user's own current password")
	v.Assert(!isAdminOrExplicitPassword("other", about, creds), "and never for a group that does not exist")
	v.Reach("end")
}

func zzGetConf() (*group.Configuration, error) { return &group.Configuration{}, nil }

var zzSegs = []string{"g", ".users", ".password", ".keys", ".tokens", ".wildcard-user", ".empty-user", "x"}

// H_C12_ApiPaths: the API router on EVERY path made of up to D segments out
// of the API's own vocabulary (in any order, so also shapes no client
// library produces: ".users/.password", ".keys/.users", ...), with and
// without trailing slash, under every method, by an administrator (the
// deepest execution): nothing panics and every request is answered.
func H_C12_ApiPaths() {
	zzApi, zzAuth = nil, nil
	method := zzMethods[v.Choice("method", len(zzMethods))]
	k := v.Choice("k", v.Param("D")+1)
	path := "/galene-api/v0/.groups"
	for i := 0; i < k; i++ {
		path += "/" + zzSegs[v.Choice(v.Idx("seg", i), len(zzSegs))]
	}
	if v.Choice("slash", 2) == 1 {
		path += "/"
	}
	zzIsAdmin, zzHasExplicit = true, false
	zzTokenExists, zzTokenForeign = true, false
	w := &zzRW{h: http.Header{}}
	r := &http.Request{Method: method, URL: &url.URL{Path: path}, Header: http.Header{}, Body: zzBody{}}
	apiHandler(w, r)
	v.Assert(method == "OPTIONS" || w.status != 0 || w.body > 0 || len(zzApi) > 0, "every request is answered")
	v.Reach("end")
}
