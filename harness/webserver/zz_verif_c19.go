//go:build verif || verifreplay

package webserver

import (
	v "github.com/jech/galene/zzverif"
)

// refValidName: same specification of an acceptable group name as in the
// group package harness (group.validGroupName is what the group layer uses).
func refValidName(s string) bool {
	n := len(s)
	if n == 0 {
		return false
	}
	ok := true
	for i := 0; i < n; i++ {
		ok = v.And(ok, s[i] != '\\')
		start := i == 0
		if i > 0 {
			start = s[i-1] == '/'
		}
		ok = v.And(ok, !v.And(start, s[i] == '/'))
		end1 := i+1 == n
		if i+1 < n {
			end1 = s[i+1] == '/'
		}
		ok = v.And(ok, !v.And3(start, s[i] == '.', end1))
		if i+1 < n {
			end2 := i+2 == n
			if i+2 < n {
				end2 = s[i+2] == '/'
			}
			ok = v.And(ok, !v.And(v.And3(start, s[i] == '.', s[i+1] == '.'), end2))
		}
	}
	ok = v.And(ok, s[n-1] != '/')
	return ok
}

// H_C19_Parse: URL-to-group parsing accepts only names the group layer
// would accept: parseGroupName("/group/", "/group/"+s) is "" or a valid name,
// for every byte string s of length 0..Lmax.
func H_C19_Parse() {
	L := v.Choice("L", v.Param("Lmax")+1)
	s := v.String("s", L)
	name := parseGroupName("/group/", "/group/"+s)
	if name != "" {
		// the result has a concrete length on this path
		v.Assert(refValidName(name), "parseGroupName returns only names that validGroupName accepts")
		v.Reach("accepted")
	}
	// a prefix mismatch is refused
	v.Assert(parseGroupName("/group/", "/grouq/"+s) == "", "paths outside the prefix are refused")
	v.Reach("end")
}

// H_C12_Strings: the string kernels of the HTTP surface never panic.
func H_C12_Strings() {
	L := v.Choice("L", v.Param("Lmax")+1)
	s := v.String("s", L)
	splitPath(s)
	parseGroupName("/group/", s)
	scanETag(s)
	etagMatch(v.String("tag", v.Choice("T", 3)), s)
	v.Reach("end")
}
