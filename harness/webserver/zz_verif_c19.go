//go:build verif || verifreplay

package webserver

import (
	"net/http"
	"net/url"
	"os"

	"github.com/jech/galene/diskwriter"
	v "github.com/jech/galene/zzverif"
)

// refValidName: same specification of an acceptable group name as in the
// group package harness (group.validGroupName is what the group layer uses).
func refValidName(s string) bool {
	n := len(s)
	if n == 0 {
		return false
	}
	ok := true
	for i := 0; i < n; i++ {
		ok = v.And(ok, s[i] != '\\')
		start := i == 0
		if i > 0 {
			start = s[i-1] == '/'
		}
		ok = v.And(ok, !v.And(start, s[i] == '/'))
		end1 := i+1 == n
		if i+1 < n {
			end1 = s[i+1] == '/'
		}
		ok = v.And(ok, !v.And3(start, s[i] == '.', end1))
		if i+1 < n {
			end2 := i+2 == n
			if i+2 < n {
				end2 = s[i+2] == '/'
			}
			ok = v.And(ok, !v.And(v.And3(start, s[i] == '.', s[i+1] == '.'), end2))
		}
	}
	ok = v.And(ok, s[n-1] != '/')
	return ok
}

// H_C19_Parse: URL-to-group parsing accepts only names the group layer
// would accept: parseGroupName("/group/", "/group/"+s) is "" or a valid name,
// for every byte string s of length 0..Lmax.
func H_C19_Parse() {
	L := v.Choice("L", v.Param("Lmax")+1)
	s := v.String("s", L)
	name := parseGroupName("/group/", "/group/"+s)
	if name != "" {
		// the result has a concrete length on this path
		v.Assert(refValidName(name), "parseGroupName returns only names that validGroupName accepts")
		v.Reach("accepted")
	}
	// a prefix mismatch is refused
	v.Assert(parseGroupName("/group/", "/grouq/"+s) == "", "paths outside the prefix are refused")
	v.Reach("end")
}

// H_C12_Strings: the string kernels of the HTTP surface never panic.
func H_C12_Strings() {
	L := v.Choice("L", v.Param("Lmax")+1)
	s := v.String("s", L)
	splitPath(s)
	parseGroupName("/group/", s)
	scanETag(s)
	etagMatch(v.String("tag", v.Choice("T", 3)), s)
	v.Reach("end")
}

// H_C19_DeleteForm: the delete action of a group's recordings page with ANY
// byte string as the form's filename: whatever happens, only a file lying
// directly inside the group's own recording directory can disappear - not a
// recording of a sub-group (g/s/...), of another group, or a file of the
// recordings root.  The recordings tree lives in the ghost file system
// (natively: a temporary directory) and is inspected with os.Stat afterwards.
func H_C19_DeleteForm() {
	L := v.Choice("L", v.Param("Lmax")+1)
	filename := v.String("filename", L)
	dir, _ := os.MkdirTemp("", "zzverif-rec")
	defer os.RemoveAll(dir)
	diskwriter.Directory = dir
	os.MkdirAll(dir+"/g/s", 0700)
	os.MkdirAll(dir+"/o", 0700)
	for _, f := range []string{"/g/r", "/g/s/x", "/o/x", "/x"} {
		os.WriteFile(dir+f, []byte("x"), 0600)
	}
	w := &zzRW{h: http.Header{}}
	form := url.Values{"q": {"delete"}, "filename": {filename}}
	r := &http.Request{Method: "POST", URL: &url.URL{Path: "/recordings/g/"}, Header: http.Header{}, Body: zzBody{}, Form: form, PostForm: form}
	handleGroupAction(w, r, "g")
	exists := func(p string) bool { _, err := os.Stat(dir + p); return err == nil }
	v.Assert(exists("/g/s/x"), "a delete request for group g never removes a recording of its sub-group g/s")
	v.Assert(exists("/o/x") && exists("/x"), "nor a recording of another group or a file of the recordings root")
	if !exists("/g/r") {
		v.Reach("deleted")
	}
	v.Assert(w.status != 0, "the request is answered")
	v.Reach("end")
}
