//go:build verif || verifreplay

package webserver

import (
	"context"
	"errors"
	"net"
	"net/http"
	"net/url"

	"github.com/pion/webrtc/v4"

	"github.com/jech/galene/group"
	"github.com/jech/galene/rtpconn"
	"github.com/jech/galene/sdpfrag"
	"github.com/jech/galene/token"
	v "github.com/jech/galene/zzverif"
)

var zzWhipFx []string

func zzw(s string) { zzWhipFx = append(zzWhipFx, s) }

func zzWhipDid(s string) bool {
	for _, x := range zzWhipFx {
		if x == s {
			return true
		}
	}
	return false
}

// ---- models (pion, ciphers, files) ----

func zzDeobfuscate(id string) (string, error)   { return "wid", nil }
func zzObfuscate(id string) (string, error)     { return "obf", nil }
func zzNewId() string                           { return "wid2" }
func zzWhipICEServers(w http.ResponseWriter)     {}
func zzWhipClose(c *rtpconn.WhipClient) error    { zzw("close"); return nil }
func zzWhipUFragPwd(c *rtpconn.WhipClient) (string, string, error) { return "u", "p", nil }
func zzWhipRestart(c *rtpconn.WhipClient, ctx context.Context, frag sdpfrag.SDPFrag) (sdpfrag.SDPFrag, error) {
	zzw("restart")
	return frag, nil
}
func zzWhipCandidate(c *rtpconn.WhipClient, init webrtc.ICECandidateInit) error {
	zzw("candidate")
	return nil
}
func zzWhipNewConnection(c *rtpconn.WhipClient, ctx context.Context, offer []byte) ([]byte, error) {
	zzw("ingest")
	return []byte("answer"), nil
}
func zzFragUnmarshal(f *sdpfrag.SDPFrag, data []byte) error { return nil }
func zzFragUFragPwd(f *sdpfrag.SDPFrag) (string, string) {
	if zzFragRestart {
		return "other", "p"
	}
	return "u", "p"
}
func zzFragCandidates(f *sdpfrag.SDPFrag) []webrtc.ICECandidateInit {
	return []webrtc.ICECandidateInit{{}}
}
func zzFragMarshal(f *sdpfrag.SDPFrag) ([]byte, error) { return []byte("frag"), nil }
func zzResolveTCPAddr(network, address string) (*net.TCPAddr, error) {
	return nil, errors.New("no address in the model")
}
func zzDescSame(name string, desc *group.Description) bool { return true }

var zzFragRestart bool

// token.Parse model for the ingest endpoint: the bearer token "good" grants
// present, "weak" grants only message, anything else does not verify.
type zzWhipTok struct{ perms []string }

func (t *zzWhipTok) Check(host, g string) (string, []string, error) { return "", t.perms, nil }
func (t *zzWhipTok) NeedsUsername() bool                             { return true }

func zzWhipParse(tok string, keys []map[string]interface{}) (token.Token, error) {
	switch tok {
	case "good":
		return &zzWhipTok{perms: []string{"present"}}, nil
	case "weak":
		return &zzWhipTok{perms: []string{"message"}}, nil
	}
	return nil, errors.New("bad token")
}

func zzWhipRequest(method, path, auth, ctype string) (*zzRW, *http.Request) {
	h := http.Header{}
	if auth != "" {
		h["Authorization"] = []string{auth}
	}
	if ctype != "" {
		h["Content-Type"] = []string{ctype}
	}
	return &zzRW{h: http.Header{}}, &http.Request{Method: method, URL: &url.URL{Path: path}, Header: h, Body: zzBody{}, RemoteAddr: "1.2.3.4:5"}
}

// H_C11_WhipResource: later requests on a WHIP session (DELETE, PATCH) take
// effect only when they present the session's bearer token; a session
// created without token accepts any request (as documented).
func H_C11_WhipResource() {
	zzWhipFx = nil
	pw := "pw"
	present, _ := group.NewPermissions("present")
	g, _ := group.Add("g", &group.Description{Users: map[string]group.UserDescription{"whip": {Password: group.Password{Type: "plain", Key: &pw}, Permissions: present}}})
	session := []string{"", "t"}[v.Choice("session", 2)]
	if session == "t" {
		session = v.String("tok", 1)
	}
	wc := rtpconn.NewWhipClient(g, "wid", session, nil)
	u := "whip"
	_, err := group.AddClient("g", wc, group.ClientCredentials{Username: &u, Password: "pw"})
	v.Assert(err == nil, "the session exists")
	method := []string{"DELETE", "PATCH", "OPTIONS", "GET"}[v.Choice("method", 4)]
	var auth string
	presented := ""
	switch v.Choice("auth", 5) {
	case 0:
		auth = ""
	case 1:
		presented = v.String("bearer", 1)
		auth = "Bearer " + presented
	case 2:
		presented = v.String("bearer", 1)
		auth = "bearer " + presented
	case 3:
		auth = "Basic " + v.String("basic", 1)
	case 4:
		presented = v.String("bearer", 1)
		auth = "Basic x, Bearer " + presented
	}
	zzFragRestart = v.Choice("restart", 2) == 1
	w, r := zzWhipRequest(method, "/group/g/.whip/obf", auth, "application/trickle-ice-sdpfrag")
	whipResourceHandler(w, r)
	acted := zzWhipDid("close") || zzWhipDid("restart") || zzWhipDid("candidate")
	authorised := session == "" || (presented != "" && presented == session)
	// a presented token containing a separator is not a token the parser would return as such
	if presented == " " || presented == "," || presented == "\t" {
		authorised = session == ""
	}
	v.Assert(!acted || authorised, "a request on a WHIP session takes effect only with the session's bearer token")
	if !authorised {
		v.Assert(w.status == http.StatusForbidden, "and is refused with 403 otherwise")
		v.Reach("refused")
	}
	if authorised && method == "DELETE" {
		v.Assert(zzWhipDid("close"), "an authorised DELETE ends the session")
		v.Reach("deleted")
	}
	v.Reach("end")
}

// H_C11_WhipEndpoint: WHIP ingest is accepted only with credentials granting
// 'present'; a refused client is not left in the group.
func H_C11_WhipEndpoint() {
	zzWhipFx = nil
	g, _ := group.Add("g", &group.Description{})
	auth := []string{"", "Bearer good", "Bearer weak", "Bearer junk", "Basic good"}[v.Choice("auth", 5)]
	method := []string{"POST", "OPTIONS", "GET"}[v.Choice("method", 3)]
	w, r := zzWhipRequest(method, "/group/g/.whip", auth, "application/sdp")
	whipEndpointHandler(w, r)
	if zzWhipDid("ingest") {
		v.Assert(method == "POST" && auth == "Bearer good", "ingest only with credentials that grant 'present'")
		v.Assert(w.status == http.StatusCreated && g.ClientCount() == 1, "the session is created")
		v.Reach("accepted")
	} else {
		v.Assert(g.ClientCount() == 0, "a refused ingest leaves no client in the group")
		v.Assert(method != "POST" || w.status == http.StatusUnauthorized || w.status == http.StatusForbidden, "and is answered 401/403")
		v.Reach("refused")
	}
	v.Reach("end")
}
