//go:build verif || verifreplay

package webserver

import (
	"net/http"
	"strings"

	v "github.com/jech/galene/zzverif"
)

// c18tag builds a well-formed strong entity tag with n symbolic body bytes.
func c18tag(name string, n int) string {
	body := v.String(name, n)
	for i := 0; i < n; i++ {
		c := body[i]
		v.Assume(c == 0x21 || (c >= 0x23 && c <= 0x7E) || c >= 0x80)
	}
	return "\"" + body + "\""
}

// H_C18_EtagSound: for EVERY header value of up to Lmax bytes and every
// current tag (well-formed strong tag, or "" = the object does not exist):
// a match is only ever reported if the current tag literally occurs in the
// header, or the header contains '*' and the object exists; a non-existent
// object never matches.  (So a conditional write can only succeed if the
// client presented the tag that is current.)
func H_C18_EtagSound() {
	exists := v.Choice("exists", 2) == 1
	etag := ""
	if exists {
		etag = c18tag("tag", 1+v.Choice("tl", 2))
	}
	L := v.Choice("L", v.Param("Lmax")+1)
	header := v.String("h", L)
	m := etagMatch(etag, header)
	if m {
		v.Assert(exists, "a non-existent object matches nothing")
		star := false
		for i := 0; i < L; i++ {
			star = v.Or(star, header[i] == '*')
		}
		sub := false
		for i := 0; i+len(etag) <= L; i++ {
			eq := true
			for k := 0; k < len(etag); k++ {
				eq = v.And(eq, header[i+k] == etag[k])
			}
			sub = v.Or(sub, eq)
		}
		v.Assert(v.Or(star, sub), "a match requires the current tag to occur in the header (or '*')")
		v.Reach("matched")
	}
	v.Reach("end")
}

// H_C18_EtagComplete: well-formed headers behave as RFC 7232 says: a list
// of one or two strong tags (any spacing) matches iff it contains the current
// tag; '*' matches iff the object exists; a weak tag never matches.
func H_C18_EtagComplete() {
	exists := v.Choice("exists", 2) == 1
	etag := ""
	if exists {
		etag = c18tag("tag", 1)
	}
	t1 := c18tag("t1", 1)
	t2 := c18tag("t2", 1)
	seps := []string{",", ", ", " ,", ",,", " , "}
	sep := seps[v.Choice("sep", len(seps))]
	v.Assert(etagMatch(etag, "*") == exists, "'*' matches iff the object exists")
	v.Assert(etagMatch(etag, " *") == exists, "leading space is ignored")
	v.Assert(etagMatch(etag, t1) == (exists && etag == t1), "a single tag matches iff it is the current one")
	v.Assert(etagMatch(etag, t1+sep+t2) == (exists && (etag == t1 || etag == t2)), "a list matches iff it contains the current tag")
	v.Assert(!etagMatch(etag, "W/"+t1), "a weak tag never matches a strong one")
	v.Assert(etagMatch(etag, "W/"+t1+sep+t2) == (exists && etag == t2), "a weak tag in a list is skipped, not fatal")
	v.Assert(!etagMatch(etag, ""), "an empty header matches nothing")
	v.Reach("end")
}

type c18rw struct {
	h      http.Header
	status int
	wrote  bool
}

func (w *c18rw) Header() http.Header         { return w.h }
func (w *c18rw) Write(b []byte) (int, error) { w.wrote = true; return len(b), nil }
func (w *c18rw) WriteHeader(s int)           { w.status = s }

// H_C18_Preconditions: the status table of checkPreconditions for every
// method and every pair of If-Match / If-None-Match values.
func H_C18_Preconditions() {
	methods := []string{"GET", "HEAD", "PUT", "POST", "DELETE", "PATCH"}
	method := methods[v.Choice("method", len(methods))]
	exists := v.Choice("exists", 2) == 1
	etag := ""
	if exists {
		etag = c18tag("tag", 1)
	}
	im := v.String("im", v.Choice("lim", v.Param("Lh")+1))
	inm := v.String("inm", v.Choice("linm", v.Param("Lh")+1))
	h := http.Header{}
	if im != "" {
		h["If-Match"] = []string{im}
	}
	if inm != "" {
		h["If-None-Match"] = []string{inm}
	}
	r := &http.Request{Method: method, Header: h}
	w := &c18rw{h: http.Header{"Content-Type": {"application/json"}}}
	done := checkPreconditions(w, r, etag)
	imOK := im == "" || etagMatch(etag, im)
	inmHit := inm != "" && etagMatch(etag, inm)
	switch {
	case !imOK:
		v.Assert(done && w.status == http.StatusPreconditionFailed, "If-Match that does not name the current tag => 412")
		v.Reach("412-im")
	case inmHit && (method == "GET" || method == "HEAD"):
		v.Assert(done && w.status == http.StatusNotModified, "If-None-Match naming the current tag on a read => 304")
		v.Reach("304")
	case inmHit:
		v.Assert(done && w.status == http.StatusPreconditionFailed, "If-None-Match naming the current tag on a write => 412")
		v.Reach("412-inm")
	default:
		v.Assert(!done && w.status == 0, "otherwise the request proceeds and nothing has been written")
		v.Reach("proceed")
	}
	v.Assert(!w.wrote, "no body is written by the precondition check")
	_ = strings.TrimSpace
	v.Reach("end")
}
