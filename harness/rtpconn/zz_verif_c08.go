//go:build verif || verifreplay

package rtpconn

import (
	"github.com/jech/galene/group"
	"github.com/jech/galene/unbounded"
	v "github.com/jech/galene/zzverif"
)

func zzHasPerm(l []string, p string) bool {
	for _, q := range l {
		if q == p {
			return true
		}
	}
	return false
}

// H_C08_NoAlias: the rights granted at login are exactly the configured
// ones for EVERY login, whatever happened to earlier clients: client A logs
// in with a role, a moderator changes A's permissions (the real
// changePermissionsAction handler), then B logs in with the same role.
func H_C08_NoAlias() {
	roles := []string{"op", "present", "message"}
	role := roles[v.Choice("role", len(roles))]
	kinds := []string{"unop", "unpresent", "shutup", "op", "present", "unshutup"}
	kind := kinds[v.Choice("kind", len(kinds))]
	p, _ := group.NewPermissions(role)
	want := append([]string(nil), p.Permissions(nil)...)

	a := &webClient{actions: unbounded.New[any]()}
	a.permissions = p.Permissions(nil) // what AddClient's c.Init(username, perms) installs
	handleAction(a, changePermissionsAction{kind: kind})

	b := p.Permissions(nil) // the next login with the same role
	v.Assert(len(b) == len(want), "a later login gets exactly the configured rights (count)")
	for _, w := range want {
		v.Assert(zzHasPerm(b, w), "a later login gets every configured right")
	}
	for i := range b {
		for j := range b {
			v.Assert(i == j || b[i] != b[j], "no right is listed twice")
		}
	}
	v.Reach("end")
}
