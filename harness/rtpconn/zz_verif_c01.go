//go:build verif || verifreplay

package rtpconn

import (
	v "github.com/jech/galene/zzverif"
)

// zzBefore reports whether a precedes b in the mod-2^16 order.
func zzBefore(a, b uint16) bool { return a != b && (b-a)&0x8000 == 0 }

// H_C01_WriteBMC: the composition the property is about.  K single-packet
// VP8 frames with ARBITRARY sequence numbers near a symbolic base (loss,
// duplicates, reordering) and arbitrary temporal layers go through the REAL
// rtpDownTrack.Write (PacketFlags + layer test + Drop-or-Map + RewritePacket)
// of a receiver that has selected temporal layer 0 of 2.  Specification, from
// the write stream only: a source packet is either always forwarded or never;
// every forwarded packet carries its source number minus the number of
// DISTINCT packets that were withheld and precede it.
func H_C01_WriteBMC() {
	K := v.Param("K")
	tids := make([]uint8, K)
	for i := range tids {
		tids[i] = uint8(v.Choice(v.Idx("tid", i), 2)) // concrete: spreads the work over the workers
	}
	down, _ := zzNewDown("video/vp8")
	down.setLayerInfo(layerInfo{tid: 0, wantedTid: 0, maxTid: 1})
	s := v.U16("seqno")
	src := make([]uint16, 0, K+1)
	fwd := make([]bool, 0, K+1)
	out := make([]uint16, 0, K+1)
	send := func(q uint16, tid uint8) {
		n0 := len(zzOut)
		down.Write(zzVP8(q, true, true, 5, true, tid, false, false, tid > 0))
		src = append(src, q)
		if len(zzOut) > n0 {
			o, _, _, ok := zzParse(zzOut[len(zzOut)-1])
			v.Assert(ok, "forwarded packets are well-formed")
			v.Assert(len(zzOut) == n0+1, "at most one packet out per packet in")
			fwd = append(fwd, true)
			out = append(out, o)
		} else {
			fwd = append(fwd, false)
			out = append(out, 0)
		}
	}
	send(s, 0)
	for i := 0; i < K; i++ {
		d := v.U8(v.Idx("d", i))
		v.Assume(d <= 6)
		send(s+uint16(d), tids[i])
	}
	okAll := true
	for i := range src {
		for j := range src {
			if i < j {
				okAll = v.And(okAll, v.Implies(src[i] == src[j], fwd[i] == fwd[j]))
				okAll = v.And(okAll, v.Implies(v.And3(src[i] == src[j], fwd[i], fwd[j]), out[i] == out[j]))
			}
		}
	}
	v.Assert(okAll, "a packet is either forwarded every time it arrives, under one number, or never: what was withheld is never forwarded later")
	numOK := true
	for i := range src {
		var w uint16
		for j := range src {
			first := true
			for k := 0; k < j; k++ {
				first = v.And(first, src[k] != src[j])
			}
			if v.And3(!fwd[j], first, zzBefore(src[j], src[i])) {
				w++
			}
		}
		numOK = v.And(numOK, v.Implies(fwd[i], out[i] == src[i]-w))
	}
	v.Assert(numOK, "every forwarded packet carries its source number minus the number of withheld packets that precede it: withheld packets leave no gap")
	v.Reach("end")
}
