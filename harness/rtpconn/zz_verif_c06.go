//go:build verif || verifreplay

package rtpconn

import (
	"io"
	"math/bits"

	"github.com/pion/interceptor"
	"github.com/pion/rtcp"
	"github.com/pion/webrtc/v4"

	"github.com/jech/galene/estimator"
	"github.com/jech/galene/jitter"
	"github.com/jech/galene/packetcache"
	"github.com/jech/galene/unbounded"
	v "github.com/jech/galene/zzverif"
)

// ---- models around the REAL readLoop ----

var zzIn [][]byte // packets the publisher's track will deliver, then EOF

func zzTrackRead(t *webrtc.TrackRemote, b []byte) (int, interceptor.Attributes, error) {
	if len(zzIn) == 0 {
		return 0, nil, io.EOF
	}
	p := zzIn[0]
	zzIn = zzIn[1:]
	return copy(b, p), nil, nil
}
func zzTRKind(t *webrtc.TrackRemote) webrtc.RTPCodecType { return webrtc.RTPCodecTypeVideo }
func zzTRCodec(t *webrtc.TrackRemote) webrtc.RTPCodecParameters {
	return webrtc.RTPCodecParameters{RTPCodecCapability: webrtc.RTPCodecCapability{MimeType: "video/vp8"}}
}
func zzTRSSRC(t *webrtc.TrackRemote) webrtc.SSRC         { return 1 }
func zzHasRtcpFb(up *rtpUpTrack, tpe, parameter string) bool { return true }
func zzJitterAccumulate(e *jitter.Estimator, ts uint32)   {}

var zzNacks []rtcp.NackPair

// model of sendNACKs (the RTCP write to the peer connection): record and succeed.
func zzSendNACKs(pc *webrtc.PeerConnection, ssrc webrtc.SSRC, nacks []rtcp.NackPair) error {
	zzNacks = append(zzNacks, nacks...)
	return nil
}

func zzRTP(seqno uint16, marker bool) []byte {
	b := []byte{0x80, 96, byte(seqno >> 8), byte(seqno), 0, 0, 0, 1, 0, 0, 0, 2, 0x10, 0x01}
	if marker {
		b[1] |= 0x80
	}
	return b
}

func zzNewUpTrack() *rtpUpTrack {
	zzStub = 0
	zzNacks = nil
	return &rtpUpTrack{
		track:      &webrtc.TrackRemote{},
		conn:       &rtpUpConnection{},
		rate:       &estimator.Estimator{},
		jitter:     &jitter.Estimator{},
		cache:      packetcache.New(8),
		actions:    unbounded.New[trackAction](),
		readerDone: make(chan struct{}),
	}
}

// H_C06_ReadLoop: N packets with ARBITRARY sequence numbers near a symbolic
// base and arbitrary rate estimates go through the REAL readLoop (pion
// Unmarshal, Keyframe, cache.Store, the NACK rule, sendNACK with its Expect
// accounting).  The NACKs it sends are exactly those of the rule that the
// packetcache obligations (nack-bmc, steady) analyse - so their results are
// results about the real reader.
func H_C06_ReadLoop() {
	N := v.Param("N")
	b := v.U16("b")
	track := zzNewUpTrack()
	seq := make([]uint16, N)
	zzIn = nil
	offs := []uint16{0, 1, 3, 0xFFFE, 6, 20, 2, 4, 9, 33}[:v.Param("O")]
	for i := 0; i < N; i++ {
		seq[i] = b + offs[v.Choice(v.Idx("d", i), len(offs))] // concrete offsets from a symbolic base: spreads the work
	}
	for i := 0; i < N; i++ {
		zzIn = append(zzIn, zzRTP(seq[i], false))
	}
	readLoop(track)

	// the rule, on a second cache fed the same packets
	ref := packetcache.New(8)
	var want []rtcp.NackPair
	for i := 0; i < N; i++ {
		buf := zzRTP(seq[i], false)
		first, _ := ref.Store(seq[i], 1, false, false, buf)
		rate := v.U32(v.Idx("prate", 2*i+2)) // the value the loop's i-th Estimate returned
		delta := seq[i] - first
		if delta&0x8000 != 0 {
			delta = 0
		}
		packets := rate / 50
		if packets > 24 {
			packets = 24
		}
		if packets < 2 {
			packets = 2
		}
		unnacked := uint16(4)
		if unnacked > uint16(packets) {
			unnacked = uint16(packets)
		}
		if uint32(delta) > packets {
			found, f, bm := ref.BitmapGet(seq[i] - unnacked)
			if found {
				want = append(want, rtcp.NackPair{PacketID: f, LostPackets: rtcp.PacketBitmap(bm)})
				ref.Expect(1 + bits.OnesCount16(bm))
			}
		}
	}
	v.Assert(len(zzNacks) == len(want), "the reader sends a NACK exactly when the analysed rule does")
	if len(zzNacks) == len(want) {
		for i := range want {
			v.Assert(zzNacks[i].PacketID == want[i].PacketID && zzNacks[i].LostPackets == want[i].LostPackets, "with the same first number and bitmap")
			v.Reach("nack")
		}
	}
	s1, s2 := track.cache.GetStats(false), ref.GetStats(false)
	v.Assert(s1 == s2, "and its reception statistics are those of the analysed cache operations")
	v.Reach("end")
}

// H_C06_ReadLoopSteady: the steady-stream scenario on the real reader: b,
// then b+2, b+3, ... at the lowest rate: the missing b+1 is requested, once.
func H_C06_ReadLoopSteady() {
	N := v.Param("N")
	b := v.U16("b")
	track := zzNewUpTrack()
	zzIn = nil
	for i := 0; i < N; i++ {
		s := b + uint16(i)
		if i >= 1 {
			s++
		}
		zzIn = append(zzIn, zzRTP(s, false))
	}
	for i := 0; i < N; i++ {
		v.Assume(v.U32(v.Idx("prate", 2*i+2)) < 100) // a slow stream: threshold 2 packets
	}
	readLoop(track)
	n := 0
	for _, np := range zzNacks {
		hit := np.PacketID == b+1
		for k := 1; k <= 16; k++ {
			if uint16(np.LostPackets)&(1<<(k-1)) != 0 && np.PacketID+uint16(k) == b+1 {
				hit = true
			}
		}
		if hit {
			n++
		}
	}
	v.Assert(n == 1, "a packet missing from a steady stream is requested by the real reader, exactly once")
	v.Reach("end")
}
