//go:build verif || verifreplay

package rtpconn

import (
	v "github.com/jech/galene/zzverif"
)

// H_C14_Filter: a user event about one group never reaches a member of
// another group (the queue filter of handleAction), and an event about the
// member's own group is delivered with the fields it carries.
func H_C14_Filter() {
	c, _, _, _ := zzWorld(1)
	zzDrain(c)
	zzQueued(c)
	gname := []string{"g", "elsewhere", "g/sub", ""}[v.Choice("group", 4)]
	kind := []string{"add", "change", "delete"}[v.Choice("kind", 3)]
	handleAction(c, pushClientAction{group: gname, kind: kind, id: "x", username: "ux", permissions: []string{"present"}})
	out := zzDrain(c)
	if gname == "g" {
		v.Assert(len(out) == 1 && out[0].Type == "user" && out[0].Kind == kind && out[0].Id == "x" && *out[0].Username == "ux" && len(out[0].Permissions) == 1, "an event about the member's own group is delivered as is")
		v.Reach("delivered")
	} else {
		v.Assert(len(out) == 0, "no event about one group reaches a member of another")
		v.Reach("filtered")
	}
	v.Reach("end")
}

func zzSamePerms(a, b []string) bool {
	if len(a) != len(b) {
		return false
	}
	for i := range a {
		if a[i] != b[i] {
			return false
		}
	}
	return true
}

// H_C14_Change: a permission change is announced to all members.  Member
// "o" (any of six changes applied to it, as the op/unop/present/unpresent/
// shutup/unshutup user actions do) handles the change and the notification
// it queues for itself; afterwards EVERY member of the group - the changed
// one and the bystander - has exactly one "change" event about "o" queued,
// carrying o's NEW permissions and true username, and handling it writes
// exactly that to the member's socket; the changed client is itself told
// its new permissions.
func H_C14_Change() {
	kind := []string{"op", "unop", "present", "unpresent", "shutup", "unshutup"}[v.Choice("kind", 6)]
	c, other, _, _ := zzWorld(1)
	before := append([]string(nil), other.permissions...)
	err := handleAction(other, changePermissionsAction{kind: kind})
	v.Assert(err == nil, "the change is applied")
	for _, a := range zzQueued(other) {
		if _, ok := a.(permissionsChangedAction); ok {
			handleAction(other, a)
		} else {
			other.actions.Put(a)
		}
	}
	v.Tick() // natively the announcement runs in its own goroutine
	now := append([]string(nil), other.permissions...)
	told := false
	for _, m := range zzDrain(other) {
		if m.Type == "joined" && m.Kind == "change" {
			told = true
			v.Assert(zzSamePerms(m.Permissions, now), "the changed client is told its new permissions")
		}
	}
	v.Assert(told, "the changed client is told about the change")
	for _, x := range []*webClient{c, other} {
		n := 0
		for _, a := range zzQueued(x) {
			p, ok := a.(pushClientAction)
			if !ok || p.kind != "change" {
				continue
			}
			n++
			v.Assert(p.group == "g" && p.id == "o" && p.username == "other", "the announcement names the changed member truthfully")
			v.Assert(zzSamePerms(p.permissions, now), "and carries its NEW permissions")
			handleAction(x, a)
			out := zzDrain(x)
			v.Assert(len(out) == 1 && out[0].Type == "user" && out[0].Kind == "change" && out[0].Id == "o" && zzSamePerms(out[0].Permissions, now), "which is what is written to the member's socket")
		}
		v.Assert(n == 1, "a permission change is announced exactly once to every member, the changed one included")
	}
	_ = before
	v.Reach("end")
}
