//go:build verif || verifreplay

package rtpconn

import (
	v "github.com/jech/galene/zzverif"
)

// H_C14_Filter: a user event about one group never reaches a member of
// another group (the queue filter of handleAction), and an event about the
// member's own group is delivered with the fields it carries.
func H_C14_Filter() {
	c, _, _, _ := zzWorld(1)
	zzDrain(c)
	zzQueued(c)
	gname := []string{"g", "elsewhere", "g/sub", ""}[v.Choice("group", 4)]
	kind := []string{"add", "change", "delete"}[v.Choice("kind", 3)]
	handleAction(c, pushClientAction{group: gname, kind: kind, id: "x", username: "ux", permissions: []string{"present"}})
	out := zzDrain(c)
	if gname == "g" {
		v.Assert(len(out) == 1 && out[0].Type == "user" && out[0].Kind == kind && out[0].Id == "x" && *out[0].Username == "ux" && len(out[0].Permissions) == 1, "an event about the member's own group is delivered as is")
		v.Reach("delivered")
	} else {
		v.Assert(len(out) == 0, "no event about one group reaches a member of another")
		v.Reach("filtered")
	}
	v.Reach("end")
}
