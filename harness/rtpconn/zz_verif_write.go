//go:build verif || verifreplay

package rtpconn

import (
	"github.com/pion/rtp"
	pcodecs "github.com/pion/rtp/codecs"
	"github.com/pion/webrtc/v4"

	"github.com/jech/galene/conn"
	"github.com/jech/galene/estimator"
	v "github.com/jech/galene/zzverif"
)

// ---- environment models (the same functions run in the symbolic run, where
// the engine redirects the stubbed callees to them, and in the native replay,
// where the patched callees call them through hook variables) ----

var zzOut [][]byte // every buffer handed to the bound write stream, copied

// model of (*webrtc.TrackLocalStaticRTP).Write: capture and succeed.
func zzTrackWrite(s *webrtc.TrackLocalStaticRTP, b []byte) (int, error) {
	cp := make([]byte, len(b))
	copy(cp, b)
	zzOut = append(zzOut, cp)
	return len(b), nil
}

var zzStub int

func zzName(base string) string {
	zzStub++
	return v.Idx(base, zzStub)
}

// model of (*estimator.Estimator).Estimate: any rate.
func zzEstimate(e *estimator.Estimator) (uint32, uint32) {
	return v.U32(zzName("rate")), v.U32(zzName("prate"))
}

// model of (*estimator.Estimator).Accumulate: no effect on anything observed here.
func zzAccumulate(e *estimator.Estimator, n uint32) {}

// model of rtptime.Jiffies: any clock reading.
func zzJiffies() uint64 { return v.U64(zzName("jiffies")) }

// fake publisher track (interface-level: ordinary Go in both runs)
type zzUpTrack struct {
	codec      string
	kfRequests int
}

func (u *zzUpTrack) AddLocal(conn.DownTrack) error { return nil }
func (u *zzUpTrack) DelLocal(conn.DownTrack) bool  { return true }
func (u *zzUpTrack) Kind() webrtc.RTPCodecType     { return webrtc.RTPCodecTypeVideo }
func (u *zzUpTrack) Label() string                 { return "l" }
func (u *zzUpTrack) Codec() webrtc.RTPCodecCapability {
	return webrtc.RTPCodecCapability{MimeType: u.codec}
}
func (u *zzUpTrack) GetPacket(seqno uint16, result []byte, nack bool) uint16 { return 0 }
func (u *zzUpTrack) RequestKeyframe() error                                   { u.kfRequests++; return nil }

func zzNewDown(codec string) (*rtpDownTrack, *zzUpTrack) {
	zzOut = nil
	zzStub = 0
	up := &zzUpTrack{codec: codec}
	down := &rtpDownTrack{
		track:          &webrtc.TrackLocalStaticRTP{},
		remote:         up,
		maxBitrate:     new(bitrate),
		maxREMBBitrate: new(bitrate),
		rate:           &estimator.Estimator{},
		stats:          new(receiverStats),
		atomics:        &downTrackAtomics{},
	}
	return down, up
}

// zzVP8 builds a single-packet VP8 frame: 12-byte RTP header, descriptor with
// X=1, I=1 (picture id, 15 bits if m15 else 7), T=1 (tid, Y), one payload byte.
func zzVP8(seqno uint16, marker bool, start bool, pid uint16, m15 bool, tid uint8, y bool, keyframe bool, n bool) []byte {
	return zzVP8Part(seqno, marker, start, 0, pid, m15, tid, y, keyframe, n)
}

// zzVP8Part: the same with an explicit partition index (the low three bits of
// the first descriptor octet): a packet starts a frame only if S=1 AND the
// partition index is 0 (RFC 7741 4.2).
func zzVP8Part(seqno uint16, marker bool, start bool, part uint8, pid uint16, m15 bool, tid uint8, y bool, keyframe bool, n bool) []byte {
	b := []byte{0x80, 96, byte(seqno >> 8), byte(seqno), 0, 0, 0, 1, 0, 0, 0, 2}
	if marker {
		b[1] |= 0x80
	}
	d0 := byte(0x80) | (part & 7)
	if n {
		d0 |= 0x20
	}
	if start {
		d0 |= 0x10
	}
	b = append(b, d0, 0x80|0x20) // X; I and T
	if m15 {
		b = append(b, 0x80|byte((pid>>8)&0x7F), byte(pid))
	} else {
		b = append(b, byte(pid&0x7F))
	}
	ty := tid << 6
	if y {
		ty |= 0x20
	}
	b = append(b, ty)
	p0 := byte(0x01) // inter frame
	if keyframe {
		p0 = 0
	}
	b = append(b, p0)
	return b
}

// zzParse: what does pion say a written packet is?
func zzParse(b []byte) (seqno uint16, pid uint16, marker bool, ok bool) {
	var p rtp.Packet
	if err := p.Unmarshal(b); err != nil {
		return 0, 0, false, false
	}
	var vp8 pcodecs.VP8Packet
	if _, err := vp8.Unmarshal(p.Payload); err != nil {
		return 0, 0, false, false
	}
	return p.SequenceNumber, vp8.PictureID, p.Marker, true
}

// H_C02_Frames3: three consecutive single-packet VP8 frames through the REAL
// rtpDownTrack.Write (PacketFlags + packetmap + RewritePacket composed): the
// middle frame is of a temporal layer above the receiver's and is withheld;
// the receiver must see consecutive sequence numbers AND consecutive picture
// ids (id of the third frame = its source id minus the one withheld frame,
// modulo the 15- or 7-bit id space), marker bits preserved.
func H_C02_Frames3() {
	m15 := v.Choice("m15", 2) == 1
	down, _ := zzNewDown("video/vp8")
	// the receiver has seen temporal layers 0..1 and selected layer 0
	down.setLayerInfo(layerInfo{tid: 0, wantedTid: 0, maxTid: 1})
	s := v.U16("seqno")
	p := v.U16("pid")
	mask := uint16(0x7F)
	if m15 {
		mask = 0x7FFF
	}
	p &= mask
	f0 := zzVP8(s, true, true, p, m15, 0, false, false, false)
	f1 := zzVP8(s+1, true, true, (p+1)&mask, m15, 1, false, false, true)
	f2 := zzVP8(s+2, true, true, (p+2)&mask, m15, 0, false, false, false)
	in2 := make([]byte, len(f2))
	copy(in2, f2)
	down.Write(f0)
	down.Write(f1)
	down.Write(f2)
	v.Assert(len(zzOut) == 2, "the frame above the selected temporal layer is withheld, the others are forwarded")
	if len(zzOut) == 2 {
		s0, p0, m0, ok0 := zzParse(zzOut[0])
		s2, p2, m2, ok2 := zzParse(zzOut[1])
		v.Assert(ok0 && ok2, "forwarded packets are well-formed")
		v.Assert(s0 == s && s2 == s+1, "sequence numbers close the gap left by the withheld packet")
		v.Assert(p0 == p, "the first frame keeps its picture id")
		v.Assert(p2 == (p+1)&mask, "picture ids of forwarded frames stay consecutive: source id minus the number of withheld frames")
		v.Assert(m0 && m2, "marker bits are preserved")
		v.Assert(len(zzOut[1]) == len(f2), "length unchanged")
	}
	for i := range f2 {
		v.Assert(f2[i] == in2[i], "the caller's (cached) buffer is never modified")
	}
	v.Reach("end")
}

// ---- C04: layer selection ----

func zzLInv(l layerInfo) bool {
	return v.And3(
		v.And3(l.sid <= l.maxSid, l.tid <= l.maxTid, l.wantedSid <= l.maxSid),
		v.And3(l.wantedTid <= l.maxTid, l.maxSid <= 7, l.maxTid <= 7),
		v.Implies(l.limitSid, l.wantedSid == 0))
}

func zzArbitraryLayer(name string) layerInfo {
	l := layerInfo{
		sid: v.U8(name + ".sid"), wantedSid: v.U8(name + ".wantedSid"), maxSid: v.U8(name + ".maxSid"),
		tid: v.U8(name + ".tid"), wantedTid: v.U8(name + ".wantedTid"), maxTid: v.U8(name + ".maxTid"),
		limitSid: v.Bool(name + ".limitSid"),
	}
	v.Assume(zzLInv(l))
	return l
}

// H_C04_Pack: the 32-bit packing of the layer state is lossless on the
// invariant's range.
func H_C04_Pack() {
	down, _ := zzNewDown("video/vp8")
	l := zzArbitraryLayer("l")
	down.setLayerInfo(l)
	v.Assert(down.getLayerInfo() == l, "get(set(x)) == x")
	v.Reach("end")
}

// H_C04_WriteVP8: ONE packet through the real Write from an ARBITRARY layer
// state (inductive step; VP8, so only the temporal layer moves).
func H_C04_WriteVP8() {
	down, _ := zzNewDown("video/vp8")
	pre := zzArbitraryLayer("pre")
	v.Assume(pre.sid == 0 && pre.maxSid == 0 && pre.wantedSid == 0) // VP8 has no spatial layers
	down.setLayerInfo(pre)
	s := v.U16("seqno")
	// the map has seen the predecessor, so this packet is the in-order successor
	down.packetmap.Map(s-1, 0)
	sbit := v.Bool("start")
	part := v.U8("part") & 7
	start := v.And(sbit, part == 0) // RFC 7741: beginning of the first partition
	kf := v.Bool("keyframe")
	tid := v.U8("tid")
	v.Assume(tid <= 3)
	y := v.Bool("y")
	pkt := zzVP8Part(s, v.Bool("marker"), sbit, part, v.U16("pid")&0x7FFF, true, tid, y, kf, false)
	down.Write(pkt)
	post := down.getLayerInfo()
	v.Assert(zzLInv(post), "selected layers never exceed the layers seen; packing invariant preserved")
	isKF := start && kf
	upSync := isKF || y
	eager := pre.tid == pre.maxTid && tid > pre.maxTid
	if post.tid < pre.tid {
		v.Assert(start, "the temporal layer falls only at the start of a frame")
		v.Reach("fell")
	}
	if post.tid > pre.tid {
		v.Assert(v.Or(eager, v.And(start, v.Or(isKF, v.And(upSync, tid <= post.wantedTid)))),
			"the temporal layer rises only at a keyframe or an up-switch point not above the wanted layer (or follows a new top layer)")
		v.Reach("rose")
	}
	v.Assert(post.sid == 0, "VP8 never moves the spatial layer")
	if tid > post.tid {
		v.Assert(len(zzOut) == 0, "an in-order packet above the selected temporal layer is withheld")
		v.Reach("withheld")
	} else {
		v.Assert(len(zzOut) == 1, "a packet within the selected layers is forwarded")
		v.Reach("forwarded")
	}
	v.Reach("end")
}

// H_C02_WrappedDelta: after exactly 65536 withheld packets (all of one
// frame) the 16-bit sequence offset has wrapped to 0 while the picture-id
// offset has not: the next frame must still have its picture id rewritten.
func H_C02_WrappedDelta() {
	down, _ := zzNewDown("video/vp8")
	down.setLayerInfo(layerInfo{tid: 0, wantedTid: 0, maxTid: 1})
	s := v.U16("seqno")
	p := v.U16("pid") & 0x7FFF
	down.Write(zzVP8(s-1, true, true, p, true, 0, false, false, false))
	v.Unwind(70000)
	for i := 0; i < 65536; i++ {
		ok := down.packetmap.Drop(s+uint16(i), (p+1)&0x7FFF)
		if !ok {
			v.Assert(false, "in-order drop refused")
		}
	}
	zzOut = nil
	down.Write(zzVP8(s, true, true, (p+2)&0x7FFF, true, 0, false, false, false))
	v.Assert(len(zzOut) == 1, "the next base-layer frame is forwarded")
	if len(zzOut) == 1 {
		so, po, _, ok := zzParse(zzOut[0])
		v.Assert(ok && so == s, "65536 withheld packets shift the sequence number by a full cycle")
		v.Assert(po == (p+1)&0x7FFF, "the picture id is still shifted by the one withheld frame")
	}
	v.Reach("end")
}

// H_C04_LimitSid: a receiver that changes its request between 'video' and
// 'video-low' on an EXISTING connection (same tracks: nothing to add or
// delete) has the low-quality limit stored on its down tracks, with the
// wanted spatial layer forced to 0, whatever the previous layer state; and
// the limit is lifted again on the way back.
func H_C04_LimitSid() {
	down, _ := zzNewDown("video/vp9")
	rt := &rtpUpTrack{}
	down.remote = rt
	pre := zzArbitraryLayer("pre")
	down.setLayerInfo(pre)
	c := &rtpDownConnection{id: "d", tracks: []*rtpDownTrack{down}}
	limit := v.Bool("limit")
	done, err := replaceTracks(c, []conn.UpTrack{rt}, limit)
	v.Assert(err == nil && !done, "nothing to renegotiate: the tracks are unchanged")
	post := down.getLayerInfo()
	v.Assert(post.limitSid == limit, "the low-quality limit follows the request also when the tracks are unchanged")
	v.Assert(v.Implies(limit, post.wantedSid == 0), "video-low steers to the lowest spatial layer")
	v.Assert(zzLInv(post), "layer invariant preserved")
	v.Assert(post.sid == pre.sid && post.tid == pre.tid && post.maxSid == pre.maxSid && post.maxTid == pre.maxTid && post.wantedTid == pre.wantedTid, "nothing else moves (the switch itself waits for the next keyframe)")
	v.Reach("end")
}

// H_C04_UpdateRate: the loss-based bitrate ceiling always stays within its
// fixed bounds, for every previous value (any stored bitrate and timestamp,
// also stale or garbage), every loss value, clock reading and rate estimate.
func H_C04_UpdateRate() {
	down, _ := zzNewDown("video/vp8")
	down.maxBitrate.bitrate = v.U64("prev")
	down.maxBitrate.jiffies = v.U64("prevjiffies")
	now := v.U64("now")
	down.updateRate(v.U8("loss"), now)
	got := down.maxBitrate.Get(now)
	v.Assert(got >= minLossRate && got <= maxLossRate, "the loss-based bitrate ceiling stays within [9600, 2^30]")
	v.Assert(down.maxBitrate.jiffies == now, "and its timestamp is refreshed")
	v.Reach("end")
}

// zzVP9 builds a single-packet VP9 frame in non-flexible mode: I=1 (15-bit
// picture id), L=1 (layer octet + TL0PICIDX), B/E/P/U/D as given, one payload
// octet whose top bits make it a VP9 frame header (key or inter frame).
func zzVP9(seqno uint16, marker, b, e, p bool, tid, sid uint8, u, d bool, keyframe bool, z bool) []byte {
	pkt := []byte{0x80, 98, byte(seqno >> 8), byte(seqno), 0, 0, 0, 1, 0, 0, 0, 2}
	if marker {
		pkt[1] |= 0x80
	}
	d0 := byte(0x80 | 0x20) // I, L
	if p {
		d0 |= 0x40
	}
	if b {
		d0 |= 0x08
	}
	if e {
		d0 |= 0x04
	}
	if z {
		d0 |= 0x01
	}
	pkt = append(pkt, d0, 0x80|0x12, 0x34) // picture id (15 bits)
	l := tid<<5 | sid<<1
	if u {
		l |= 0x10
	}
	if d {
		l |= 0x01
	}
	pkt = append(pkt, l, 7) // layer octet, TL0PICIDX
	h := byte(0x80)         // frame marker 0b10, profile 0, show_existing_frame 0
	if !keyframe {
		h |= 0x04 // frame_type = 1 (non-key)
	}
	return append(pkt, h)
}

// H_C04_WriteVP9: ONE VP9 packet through the real Write from an ARBITRARY
// layer state: the spatial layer changes only at the first packet of a
// keyframe (or follows a new top layer); layers above the selection are
// withheld, as are non-reference packets of lower spatial layers.
func H_C04_WriteVP9() {
	down, up := zzNewDown("video/vp9")
	_ = v.Choice("_", 1)
	pre := zzArbitraryLayer("pre")
	down.setLayerInfo(pre)
	s := v.U16("seqno")
	down.packetmap.Map(s-1, 0)
	b, e := v.Bool("B"), v.Bool("E")
	kf := v.Bool("keyframe")
	tid, sid := uint8(v.Choice("tid", v.Param("L"))), uint8(v.Choice("sid", v.Param("L"))) // concrete: spreads the work over the workers
	u := v.Bool("U")
	z := v.Bool("Z")
	pkt := zzVP9(s, v.Bool("marker"), b, e, v.Bool("P"), tid, sid, u, v.Bool("D"), kf, z)
	down.Write(pkt)
	post := down.getLayerInfo()
	v.Assert(zzLInv(post), "selected layers never exceed the layers seen; invariant preserved")
	isKF := b && kf
	eagerS := pre.sid == pre.maxSid && !pre.limitSid && sid > pre.maxSid
	if post.sid != pre.sid {
		v.Assert(v.Or(isKF, eagerS), "the spatial layer changes only at the first packet of a keyframe (or follows a new top layer)")
		v.Reach("sid-changed")
	}
	eagerT := pre.tid == pre.maxTid && tid > pre.maxTid
	if post.tid < pre.tid {
		v.Assert(b, "the temporal layer falls only at the start of a frame")
	}
	if post.tid > pre.tid {
		v.Assert(v.Or(eagerT, v.And(b, v.Or(isKF, v.And(v.Or(isKF, u), tid <= post.wantedTid)))), "the temporal layer rises only at a keyframe or an up-switch point not above the wanted layer")
	}
	if b && post.sid != post.wantedSid && !isKF {
		v.Assert(up.kfRequests > 0, "a pending spatial switch asks the publisher for a keyframe")
	}
	if tid > post.tid || sid > post.sid {
		v.Assert(len(zzOut) == 0, "an in-order packet above the selected layers is withheld")
		v.Reach("withheld")
	} else if sid < post.sid && z {
		v.Assert(len(zzOut) == 0, "a lower-layer packet that upper layers do not reference is withheld")
		v.Reach("nonref")
	} else {
		v.Assert(len(zzOut) == 1, "a packet within the selection is forwarded")
		v.Reach("forwarded")
	}
	v.Reach("end")
}


// H_C12_WriteLength: one VP8 packet (any field values, 7- or 15-bit picture
// id) through the real Write on the REWRITING path (the map has withheld a
// packet, so seqno and picture id are shifted): what reaches the wire has
// exactly the length of what came in, the input buffer is untouched, and
// nothing panics.
func H_C12_WriteLength() {
	m15 := v.Choice("m15", 2) == 1
	down, _ := zzNewDown("video/vp8")
	down.setLayerInfo(layerInfo{tid: 1, wantedTid: 1, maxTid: 1})
	s := v.U16("seqno")
	down.packetmap.Map(s-2, 0)
	ok := down.packetmap.Drop(s-1, 1)
	v.Assume(ok)
	tid := v.U8("tid") & 1
	pkt := zzVP8Part(s, v.Bool("marker"), v.Bool("start"), v.U8("part")&7, v.U16("pid")&0x7FFF, m15, tid, v.Bool("y"), v.Bool("keyframe"), v.Bool("n"))
	in := make([]byte, len(pkt))
	copy(in, pkt)
	n, err := down.Write(pkt)
	v.Assert(err == nil, "a well-formed packet is not refused")
	v.Assert(len(zzOut) == 1, "a packet within the selected layers is forwarded")
	if len(zzOut) == 1 {
		v.Assert(len(zzOut[0]) == len(in), "forwarding never changes a packet's length")
		v.Assert(n == len(in), "and the byte count reported for rate accounting is the packet's length")
		so, _, _, okp := zzParse(zzOut[0])
		v.Assert(okp && so == s-1, "the packet went through the rewriting path")
	}
	for i := range pkt {
		v.Assert(pkt[i] == in[i], "the caller's buffer is never modified")
	}
	v.Reach("end")
}

// H_C02_MarkerVP9: ONE VP9 packet through the real Write from an arbitrary
// layer state: the marker bit is only ever set, never cleared, and only on
// the last packet (E) of a frame of the highest forwarded spatial layer;
// timestamp, payload and length are untouched.
func H_C02_MarkerVP9() {
	down, _ := zzNewDown("video/vp9")
	_ = v.Choice("_", 1)
	pre := zzArbitraryLayer("pre")
	down.setLayerInfo(pre)
	s := v.U16("seqno")
	down.packetmap.Map(s-1, 0)
	e := v.Bool("E")
	tid, sid := uint8(v.Choice("tid", v.Param("L"))), uint8(v.Choice("sid", v.Param("L")))
	min := v.Bool("marker")
	pkt := zzVP9(s, min, v.Bool("B"), e, v.Bool("P"), tid, sid, v.Bool("U"), v.Bool("D"), v.Bool("keyframe"), v.Bool("Z"))
	in := make([]byte, len(pkt))
	copy(in, pkt)
	down.Write(pkt)
	post := down.getLayerInfo()
	if len(zzOut) == 1 {
		out := zzOut[0]
		v.Assert(len(out) == len(in), "length unchanged")
		if len(out) == len(in) {
			mout := out[1]&0x80 != 0
			v.Assert(v.Implies(min, mout), "the marker bit is never cleared")
			if mout && !min {
				v.Assert(v.And(e, sid == post.sid), "the marker bit is set only on the last packet of a frame of the highest forwarded spatial layer")
				v.Reach("marker-set")
			}
			v.Assert(out[0] == in[0] && out[1]&0x7F == in[1]&0x7F, "first header octets unchanged")
			for i := 4; i < len(in); i++ {
				v.Assert(out[i] == in[i], "timestamp, SSRC and payload bytes unchanged")
			}
		}
		v.Reach("forwarded")
	}
	v.Reach("end")
}
