//go:build verif || verifreplay

package rtpconn

import (
	"github.com/pion/webrtc/v4"

	"github.com/jech/galene/conn"
	"github.com/jech/galene/group"
	v "github.com/jech/galene/zzverif"
)

// fake publisher stream and tracks (interface-level)
type zzKindTrack struct {
	zzUpTrack
	kind webrtc.RTPCodecType
	n    int
}

func (t *zzKindTrack) Kind() webrtc.RTPCodecType { return t.kind }

type zzUp struct{ id, label, uid, uname string }

func (u *zzUp) AddLocal(conn.Down) error { return nil }
func (u *zzUp) DelLocal(conn.Down) bool  { return true }
func (u *zzUp) Id() string               { return u.id }
func (u *zzUp) Label() string            { return u.label }
func (u *zzUp) User() (string, string)   { return u.uid, u.uname }

var zzWords = []string{"audio", "video", "video-low", "other"}

// zzRequest: a request list of up to 3 words, each chosen freely
func zzRequest(name string) []string {
	n := v.Choice(name+".n", v.Param("W")+1)
	var r []string
	for i := 0; i < n; i++ {
		r = append(r, zzWords[v.Choice(name+".w", len(zzWords))])
	}
	return r
}

func zzTracks() []conn.UpTrack {
	n := v.Choice("tracks", v.Param("T")+1)
	var ts []conn.UpTrack
	for i := 0; i < n; i++ {
		k := webrtc.RTPCodecTypeAudio
		if v.Choice("kind", 2) == 1 {
			k = webrtc.RTPCodecTypeVideo
		}
		ts = append(ts, &zzKindTrack{kind: k, n: i})
	}
	return ts
}

// specRequested: the property's own rule.
func specRequested(req []string, tracks []conn.UpTrack) (want []conn.UpTrack, limit bool) {
	audio, video, low := false, false, false
	for _, w := range req {
		audio = audio || w == "audio"
		video = video || w == "video"
		low = low || w == "video-low"
	}
	var firstA, firstV, lastV conn.UpTrack
	nv := 0
	for _, t := range tracks {
		if t.Kind() == webrtc.RTPCodecTypeAudio && firstA == nil {
			firstA = t
		}
		if t.Kind() == webrtc.RTPCodecTypeVideo {
			if firstV == nil {
				firstV = t
			}
			lastV = t
			nv++
		}
	}
	if audio && firstA != nil {
		want = append(want, firstA)
	}
	if video && firstV != nil {
		want = append(want, firstV)
	} else if !video && low && lastV != nil {
		want = append(want, lastV)
	}
	limit = !video && low && nv < 2
	return
}

func zzSameTracks(a, b []conn.UpTrack) bool {
	if len(a) != len(b) {
		return false
	}
	for i := range a {
		if a[i] != b[i] {
			return false
		}
	}
	return true
}

// H_C07_Requested: exactly the requested kinds: first audio track; first
// video track for 'video', last for 'video-low'; nothing else; the low-quality
// limit exactly for 'video-low' without 'video' from a non-simulcast publisher.
func H_C07_Requested() {
	req := zzRequest("req")
	tracks := zzTracks()
	got, limit := requestedTracks(zzNewClient("m"), req, tracks)
	want, wlimit := specRequested(req, tracks)
	v.Assert(zzSameTracks(got, want), "the offered tracks are exactly the requested kinds")
	v.Assert(limit == wlimit, "the low-quality limit is set exactly for video-low from a publisher without simulcast")
	v.Reach("end")
}

// ---- pushDownConn ----

type zzOffer struct {
	id     string
	tracks []conn.UpTrack
	limit  bool
}

var zzOffers []zzOffer
var zzNegotiated []string

// model of addDownConn (creates a PeerConnection in the real code): a down
// connection bound to the given stream, registered under its id.
func zzAddDownConn(c *webClient, remote conn.Up) (*rtpDownConnection, bool, error) {
	id := remote.Id()
	if c.down == nil {
		c.down = make(map[string]*rtpDownConnection)
	}
	if d := c.down[id]; d != nil {
		return d, false, nil
	}
	d := &rtpDownConnection{id: id, remote: remote}
	c.down[id] = d
	return d, true, nil
}

// model of replaceTracks: record what is put on the connection.
func zzReplaceTracks(down *rtpDownConnection, remote []conn.UpTrack, limitSid bool) (bool, error) {
	zzOffers = append(zzOffers, zzOffer{id: down.id, tracks: remote, limit: limitSid})
	return true, nil
}

// model of negotiate: the offer goes out.
func zzNegotiate(c *webClient, down *rtpDownConnection, restartIce bool, replace string) error {
	zzNegotiated = append(zzNegotiated, down.id)
	return nil
}

// model of delDownConn (closes the PeerConnection in the real code)
func zzDelDownConn(c *webClient, id string) error {
	if c.down == nil || c.down[id] == nil {
		return errUnexpectedTrackType
	}
	delete(c.down, id)
	return nil
}

func zzCloses(c *webClient) []string {
	var ids []string
	for _, m := range zzDrain(c) {
		if m.Type == "close" {
			ids = append(ids, m.Id)
		}
	}
	return ids
}

// H_C07_Push: a member is offered a publisher's stream iff the stream's label
// (or, only if the label is not in the request at all, the default) is
// requested, with exactly the requested tracks; otherwise it is sent one close
// for it; a replaced stream is always closed; the stream is labelled with
// the publisher's stream id.
func H_C07_Push() {
	zzOffers, zzNegotiated = nil, nil
	c := zzNewClient("m")
	g, _ := group.Add("g", &group.Description{})
	c.group = g
	up := &zzUp{id: "s1", label: []string{"", "camera", "screenshare"}[v.Choice("label", 3)], uid: "pub", uname: "publisher"}
	// the request map: default entry and/or an entry for "screenshare"
	hasDef := v.Choice("hasdef", 2) == 1
	hasLbl := v.Choice("haslbl", 2) == 1
	var def, lbl []string
	if hasDef {
		def = zzRequest("def")
		c.requested[""] = def
	}
	if hasLbl {
		lbl = zzRequest("lbl")
		c.requested["screenshare"] = lbl
	}
	tracks := zzTracks()
	replace := ""
	if v.Choice("replace", 2) == 1 {
		replace = "s0"
		c.down = map[string]*rtpDownConnection{"s0": {id: "s0", remote: &zzUp{id: "s0"}}}
	}

	err := handleAction(c, pushConnAction{g, "s1", up, tracks, replace})
	v.Assert(err == nil, "no error")

	var req []string
	if up.label == "screenshare" && hasLbl {
		req = lbl
	} else if hasDef {
		req = def
	}
	want, wlimit := specRequested(req, tracks)
	closes := zzCloses(c)
	closed := func(id string) int {
		n := 0
		for _, x := range closes {
			if x == id {
				n++
			}
		}
		return n
	}
	if len(want) == 0 {
		v.Assert(len(zzNegotiated) == 0 && len(zzOffers) == 0, "a stream that is not requested is not offered")
		v.Assert(closed("s1") == 1, "and the subscriber is sent exactly one close for it")
		v.Reach("not-offered")
	} else {
		v.Assert(len(zzOffers) == 1 && zzOffers[0].id == "s1" && zzSameTracks(zzOffers[0].tracks, want) && zzOffers[0].limit == wlimit, "offered with exactly the requested tracks")
		v.Assert(len(zzNegotiated) == 1 && zzNegotiated[0] == "s1", "the offer for the publisher's stream id goes out")
		v.Assert(closed("s1") == 0, "no close for a stream that is offered")
		v.Reach("offered")
	}
	if replace != "" {
		_, still := c.down["s0"]
		v.Assert(!still, "the replaced stream's connection is gone")
		if len(want) == 0 {
			v.Assert(closed("s0") == 1, "a subscriber that was offered the replaced stream is sent a close for it")
		}
	}
	// a stream pushed for another group is ignored
	zzOffers, zzNegotiated = nil, nil
	g2, _ := group.Add("h", &group.Description{})
	handleAction(c, pushConnAction{g2, "s9", &zzUp{id: "s9"}, tracks, ""})
	v.Assert(len(zzOffers) == 0 && len(zzNegotiated) == 0 && len(zzCloses(c)) == 0, "streams are never offered to members of another group")
	// nor to a client that has not joined
	c2 := zzNewClient("n")
	handleAction(c2, pushConnAction{g, "s1", up, tracks, ""})
	v.Assert(len(zzOffers) == 0 && len(zzDrain(c2)) == 0, "nor to clients that have not joined")
	v.Reach("end")
}

// model of (*webrtc.PeerConnection).Close: the transport is pion's.
func zzPCClose(pc *webrtc.PeerConnection) error { return nil }

// H_C07_Teardown: when a publisher closes a stream, loses the right to
// present, leaves, or its connection ends (kick, disconnect: clientLoop's
// deferred leaveGroup), every subscriber that was offered the stream is sent
// a close for it - exactly one - and forgets it; the publisher no longer
// owns it.  Publisher "o" owns stream "x"; member "m" (any role) holds the
// corresponding down connection.
func H_C07_Teardown() {
	trigger := v.Choice("trigger", 4)
	c, other, g, _ := zzWorld(1)
	up := &rtpUpConnection{id: "x", client: other, label: "l"}
	other.up = map[string]*rtpUpConnection{"x": up}
	c.down = map[string]*rtpDownConnection{"x": {id: "x", remote: up}}
	switch trigger {
	case 0:
		handleClientMessage(other, clientMessage{Type: "close", Id: "x"})
	case 1:
		handleAction(other, changePermissionsAction{kind: "unpresent"})
		for _, a := range zzQueued(other) {
			if _, ok := a.(permissionsChangedAction); ok {
				handleAction(other, a)
			}
		}
	case 2:
		handleClientMessage(other, clientMessage{Type: "join", Kind: "leave", Group: "g"})
	case 3:
		leaveGroup(other) // what clientLoop defers: kick, protocol error, disconnect
	}
	v.Assert(len(other.up) == 0 && up.closed, "the publisher no longer owns the stream and it is marked closed")
	n := 0
	for _, a := range zzQueued(c) {
		p, ok := a.(pushConnAction)
		if !ok {
			continue
		}
		n++
		v.Assert(p.group == g && p.id == "x" && p.conn == nil, "the subscriber is told that stream x is gone")
		handleAction(c, a)
	}
	v.Assert(n == 1, "every subscriber that was offered the stream is notified exactly once")
	closes := 0
	for _, m := range zzDrain(c) {
		if m.Type == "close" {
			closes++
			v.Assert(m.Id == "x", "a close only for the stream that ended")
		}
	}
	v.Assert(closes == 1, "the subscriber is sent exactly one close for it")
	v.Assert(len(c.down) == 0, "and forgets its down connection")
	v.Reach("end")
}
