//go:build verif || verifreplay

package rtpconn

import (
	"errors"

	"github.com/pion/webrtc/v4"

	"github.com/jech/galene/diskwriter"
	"github.com/jech/galene/group"
	"github.com/jech/galene/token"
	"github.com/jech/galene/unbounded"
	v "github.com/jech/galene/zzverif"
)

// ---- effect log: every privileged effect records itself here ----

type zzEffect struct {
	name  string
	group string // for token effects: the group of the token touched
}

var zzFx []zzEffect

func zzRecord(name string) { zzFx = append(zzFx, zzEffect{name: name}) }

func zzDid(name string) bool {
	for _, e := range zzFx {
		if e.name == name {
			return true
		}
	}
	return false
}

// forwarded messages (model of broadcast): recipients and the message
type zzCast struct {
	to []string
	m  clientMessage
}

var zzCasts []zzCast

// ---- function-level models ----

func zzBroadcast(cs []group.Client, m clientMessage) error {
	var to []string
	for _, c := range cs {
		to = append(to, c.Id())
	}
	zzCasts = append(zzCasts, zzCast{to: to, m: m})
	return nil
}

func zzDescUnchanged(name string, desc *group.Description) bool { return true }

func zzGotOffer(c *webClient, id, label string, sdp string, replace string) error {
	zzRecord("publish")
	return nil
}
func zzGotAnswer(c *webClient, id string, sdp string) error { return ErrUnknownId }
func zzGotICE(c *webClient, candidate *webrtc.ICECandidateInit, id string) error {
	return nil
}
func zzDiskNew(g *group.Group) (*diskwriter.Client, error) {
	zzRecord("record")
	return nil, errors.New("recording is not modelled")
}

var zzOtherGroupToken bool // does the token store hand back a token of ANOTHER group?

func zzTokenGet(tok string) (*token.Stateful, string, error) {
	zzRecord("token-get")
	g := "g"
	if zzOtherGroupToken {
		g = "elsewhere"
	}
	return &token.Stateful{Token: tok, Group: g}, "etag", nil
}
var zzLastToken *token.Stateful

func zzTokenUpdate(tok *token.Stateful, etag string) (*token.Stateful, error) {
	zzLastToken = tok
	zzFx = append(zzFx, zzEffect{name: "token-update", group: tok.Group})
	return tok, nil
}
func zzTokenList(g string) ([]*token.Stateful, string, error) {
	zzFx = append(zzFx, zzEffect{name: "token-list", group: g})
	return nil, "", nil
}

var zzC11Stubs = 0 // (documentation only)

// ---- set-up ----

func zzNewClient(id string) *webClient {
	return &webClient{
		id:         id,
		actions:    unbounded.New[any](),
		writeCh:    make(chan interface{}, 64),
		writerDone: make(chan struct{}),
		done:       make(chan struct{}),
		requested:  map[string][]string{},
	}
}

// drain returns everything written to a client's websocket so far.
func zzDrain(c *webClient) []clientMessage {
	var out []clientMessage
	for {
		select {
		case x := <-c.writeCh:
			if m, ok := x.(clientMessage); ok {
				out = append(out, m)
			}
		default:
			return out
		}
	}
}

func zzQueued(c *webClient) []any { return c.actions.Get() }

var zzRoles = []string{"op", "present", "message", "observe", "caption"}

// zzWorld builds a group "g" (any role for user "me", recording/token flags,
// possibly locked or redirecting), a member "o", and brings client "m" into
// one of the membership states by sending it REAL join/leave messages.
//   state 0: never joined        state 1: member
//   state 2: join refused (group locked, good password)
//   state 3: joined, then left   state 4: join into a redirecting group
func zzWorld(state int) (c, other *webClient, g *group.Group, role string) {
	zzFx, zzCasts = nil, nil
	role = zzRoles[v.Choice("role", len(zzRoles))]
	zzFlags := v.Choice("flags", 2) == 1 // allow-recording and unrestricted-tokens together
	perm, _ := group.NewPermissions(role)
	present, _ := group.NewPermissions("present")
	pw, pwo := "pw", "pwo"
	desc := &group.Description{
		AllowRecording:     zzFlags,
		UnrestrictedTokens: zzFlags,
		Users: map[string]group.UserDescription{
			"me":    {Password: group.Password{Type: "plain", Key: &pw}, Permissions: perm},
			"other": {Password: group.Password{Type: "plain", Key: &pwo}, Permissions: present},
		},
	}
	if state == 4 {
		desc.Redirect = "https://elsewhere.example/"
	}
	g, _ = group.Add("g", desc)
	other = zzNewClient("o")
	uo := "other"
	handleClientMessage(other, clientMessage{Type: "join", Kind: "join", Group: "g", Username: &uo, Password: "pwo"})
	c = zzNewClient("m")
	um := "me"
	join := clientMessage{Type: "join", Kind: "join", Group: "g", Username: &um, Password: "pw"}
	switch state {
	case 1:
		handleClientMessage(c, join)
	case 2:
		g.SetLocked(true, "")
		handleClientMessage(c, join)
	case 3:
		handleClientMessage(c, join)
		handleClientMessage(c, clientMessage{Type: "join", Kind: "leave", Group: "g"})
	case 4:
		handleClientMessage(c, join)
	}
	zzDrain(c)
	zzDrain(other)
	zzQueued(other)
	zzFx, zzCasts = nil, nil
	return
}

// message variants: type, kind, destination, id, value shape
type zzMsgKind struct {
	typ, kind, dest, id string
	value              int
}

var zzMsgs = []zzMsgKind{
	{"offer", "", "", "x", 0}, {"offer", "", "", "", 0}, {"answer", "", "", "x", 0}, {"renegotiate", "", "", "x", 0},
	{"close", "", "", "x", 0}, {"abort", "", "", "x", 0}, {"ice", "", "", "x", 0}, {"request", "", "", "", 2}, {"request", "", "", "", 1},
	{"requestStream", "", "", "x", 0},
	{"chat", "", "", "x", 1}, {"chat", "", "o", "", 1}, {"chat", "", "nobody", "", 1}, {"chat", "caption", "", "x", 1}, {"chat", "me", "", "", 4},
	{"usermessage", "x", "", "x", 1}, {"usermessage", "x", "o", "x", 2},
	{"groupaction", "clearchat", "", "", 0}, {"groupaction", "clearchat", "", "", 2}, {"groupaction", "clearchat", "", "", 1},
	{"groupaction", "lock", "", "", 1}, {"groupaction", "lock", "", "", 0}, {"groupaction", "unlock", "", "", 0},
	{"groupaction", "record", "", "", 0}, {"groupaction", "unrecord", "", "", 0}, {"groupaction", "subgroups", "", "", 0},
	{"groupaction", "setdata", "", "", 2}, {"groupaction", "setdata", "", "", 1},
	{"groupaction", "maketoken", "", "", 2}, {"groupaction", "maketoken", "", "", 3}, {"groupaction", "maketoken", "", "", 0},
	{"groupaction", "edittoken", "", "", 3}, {"groupaction", "edittoken", "", "", 2}, {"groupaction", "edittoken", "", "", 1},
	{"groupaction", "listtokens", "", "", 0}, {"groupaction", "other", "", "", 0},
	{"useraction", "op", "o", "", 0}, {"useraction", "op", "nobody", "", 0}, {"useraction", "unop", "o", "", 0}, {"useraction", "present", "o", "", 0},
	{"useraction", "unpresent", "o", "", 0}, {"useraction", "shutup", "o", "", 0}, {"useraction", "unshutup", "m", "", 0},
	{"useraction", "identify", "o", "", 0}, {"useraction", "identify", "nobody", "", 0}, {"useraction", "kick", "o", "", 1}, {"useraction", "kick", "nobody", "", 0},
	{"useraction", "setdata", "m", "", 2}, {"useraction", "setdata", "o", "", 2}, {"useraction", "setdata", "m", "", 1}, {"useraction", "other", "", "", 0},
	{"ping", "", "", "", 0}, {"pong", "", "", "", 0}, {"join", "join", "", "", 0}, {"join", "leave", "", "", 0}, {"join", "other", "", "", 0}, {"bogus", "", "", "", 0},
}

func zzValue(kind int) interface{} {
	switch kind {
	case 1:
		return "text"
	case 2:
		return map[string]interface{}{"id": "h1", "userId": "o", "group": "g", "expires": "2100-01-01T00:00:00Z", "permissions": []interface{}{"message"}}
	case 3:
		return map[string]interface{}{"token": "tok", "expires": "2100-01-01T00:00:00Z"}
	case 4:
		return 42
	}
	return nil
}

// H_C11_Matrix: ONE signalling message of any type/kind, with any
// destination, id and value shape, sent by a client in any membership state
// holding the rights of any role (through REAL joins): every privileged
// effect that happens was permitted - the sender is a current member and
// holds the required permission - and nothing panics (C12).
func H_C11_Matrix() {
	state := v.Choice("state", 5)
	c, other, g, _ := zzWorld(state)
	mk := zzMsgs[v.Choice("msg", len(zzMsgs))]
	m := clientMessage{
		Type: mk.typ, Kind: mk.kind,
		Dest:  mk.dest,
		Id:    mk.id,
		Value: zzValue(mk.value),
		Group: "g",
	}
	if mk.typ == "request" || mk.typ == "requestStream" {
		m.Request, m.Value = m.Value, nil
	}
	if mk.typ == "ice" {
		m.Candidate = &webrtc.ICECandidateInit{}
	}
	zzOtherGroupToken = v.Choice("othertoken", 2) == 1
	member := c.group != nil
	perms := append([]string(nil), c.permissions...)
	has := func(p string) bool { return zzHasPerm(perms, p) }
	lockedBefore, _ := g.Locked()
	histBefore := len(g.GetChatHistory())

	handleClientMessage(c, m)

	if !member {
		v.Assert(len(perms) == 0, "a client that is not a member (never joined, join refused, left, redirected) holds no permission")
	}
	v.Assert(!zzDid("publish") || (member && has("present")), "publishing needs 'present' and membership")
	v.Assert(!zzDid("record") || (member && has("record")), "recording needs 'record' and membership")
	for _, e := range zzFx {
		if e.name == "token-update" && mk.kind == "maketoken" {
			v.Assert(member && has("token"), "token creation needs 'token' and membership")
			v.Assert(e.group == "g", "a created token is for the member's own group")
		}
		if e.name == "token-update" && mk.kind == "edittoken" {
			v.Assert(member && has("op") && has("token"), "token editing needs 'op' and 'token'")
			v.Assert(e.group == "g", "token editing reaches only tokens of the member's own group")
		}
		if e.name == "token-list" {
			v.Assert(member && has("op") && has("token") && e.group == "g", "token listing needs 'op' and 'token' and lists the own group")
		}
	}
	lockedAfter, _ := g.Locked()
	v.Assert(lockedAfter == lockedBefore || (member && has("op")), "locking/unlocking needs 'op'")
	if mk.typ != "join" {
		q := zzQueued(other)
		for _, a := range q {
			switch a.(type) {
			case changePermissionsAction, kickAction:
				v.Assert(member && has("op"), "op/unop/present/unpresent/shutup/kick need 'op'")
			}
		}
	}
	// chat: forwarded or stored only with 'message' (or 'caption' for captions)
	need := "message"
	if mk.typ == "chat" && mk.kind == "caption" {
		need = "caption"
	}
	outO := zzDrain(other)
	if mk.typ == "chat" || mk.typ == "usermessage" {
		forwarded := len(zzCasts) > 0
		for _, x := range outO {
			if x.Type == mk.typ {
				forwarded = true
			}
		}
		v.Assert(!forwarded || (member && has(need)), "chat needs 'message', captions need 'caption'")
		v.Assert(len(g.GetChatHistory()) == histBefore || (member && has(need)), "nothing enters the history without the permission")
	} else {
		for _, cast := range zzCasts {
			v.Assert(member && has("op"), "server-wide notices (clearchat) need 'op'")
			_ = cast
		}
	}
	outC := zzDrain(c)
	for _, x := range outC {
		if x.Kind == "userinfo" {
			v.Assert(member && has("op"), "identify needs 'op'")
		}
		if x.Type == "chat" && x.Username != nil && *x.Username == "Server" {
			v.Assert(member && has("op"), "subgroups needs 'op'")
		}
	}
	if mk.typ == "groupaction" && mk.kind == "setdata" && len(g.Data()) > 0 {
		v.Assert(member && has("op"), "setting group data needs 'op'")
	}
	v.Reach("end")
}

// H_C11_Leave: leaving clears the rights; a revoked 'present' closes the streams.
func H_C11_Leave() {
	c, _, _, _ := zzWorld(1)
	v.Assert(c.group != nil, "joined")
	handleClientMessage(c, clientMessage{Type: "join", Kind: "leave", Group: "g"})
	v.Assert(c.group == nil && c.permissions == nil, "after leaving: no group, no permission")
	v.Reach("end")
}

// H_C15_Chat: authenticity and addressing of one chat/usermessage sent by a
// member with the rights of any role, with symbolic source, username and
// destination bytes.
func H_C15_Chat() {
	c, other, g, _ := zzWorld(1)
	typ := []string{"chat", "usermessage"}[v.Choice("type", 2)]
	src := v.String("src", v.Choice("sl", 2))
	dst := v.String("dst", v.Choice("dl", 2))
	var uname *string
	if v.Choice("hasuser", 2) == 1 {
		u := v.String("user", 2)
		uname = &u
	}
	noecho := v.Bool("noecho")
	m := clientMessage{Type: typ, Kind: "", Source: src, Dest: dst, Username: uname, NoEcho: noecho, Value: "hello", Id: "i1"}
	hist := len(g.GetChatHistory())
	perms := append([]string(nil), c.permissions...)
	err := handleClientMessage(c, m)

	spoofed := (src != "" && src != "m") || (uname != nil && *uname != "me")
	outO := zzDrain(other)
	if spoofed {
		_, isProto := err.(group.ProtocolError)
		v.Assert(isProto, "a message claiming another client's id or name is a protocol error (which closes the connection)")
		v.Assert(len(zzCasts) == 0 && len(outO) == 0 && len(g.GetChatHistory()) == hist, "and has no effect")
		v.Reach("spoof")
		return
	}
	if !zzHasPerm(perms, "message") {
		v.Assert(len(zzCasts) == 0 && len(outO) == 0, "no permission, no delivery")
		v.Reach("unauthorised")
		return
	}
	check := func(x clientMessage) {
		v.Assert(x.Source == "" || x.Source == "m", "source is the sender's true id or nothing")
		v.Assert(x.Username == nil || *x.Username == "me", "username is the sender's true name or nothing")
		v.Assert(x.Privileged == zzHasPerm(perms, "op"), "privileged exactly when the sender is an operator")
		v.Assert(x.Dest == dst && x.Kind == "" && x.NoEcho == noecho && x.Type == typ, "destination, kind and flags are forwarded unchanged")
		s, ok := x.Value.(string)
		v.Assert(ok && s == "hello", "the value is forwarded unchanged")
	}
	if dst == "" {
		v.Assert(len(zzCasts) == 1 && len(outO) == 0, "a broadcast is sent once")
		if len(zzCasts) == 1 {
			to := zzCasts[0].to
			wantN := 2
			if noecho {
				wantN = 1
			}
			v.Assert(len(to) == wantN, "to every member, minus the sender when it asked for no echo")
			hasO, hasM := false, false
			for _, id := range to {
				hasO = hasO || id == "o"
				hasM = hasM || id == "m"
			}
			v.Assert(hasO && hasM == !noecho, "exactly those")
			check(zzCasts[0].m)
		}
		if typ == "chat" {
			v.Assert(len(g.GetChatHistory()) == hist+1, "broadcast chat is stored in the history")
		} else {
			v.Assert(len(g.GetChatHistory()) == hist, "only broadcast chat is stored")
		}
		v.Reach("broadcast")
	} else {
		v.Assert(len(zzCasts) == 0, "a directed message is not broadcast")
		v.Assert(len(g.GetChatHistory()) == hist, "nor stored")
		if dst == "o" {
			v.Assert(len(outO) == 1, "delivered to exactly the named destination")
			if len(outO) == 1 {
				check(outO[0])
			}
			v.Reach("directed")
		} else {
			v.Assert(len(outO) == 0, "nobody else receives it")
		}
	}
	v.Reach("end")
}

// H_C12_Actions: whatever the membership state, draining the client's action
// queue (what clientLoop does with everything other clients and the group
// queued for it) never panics, and events about a group reach the client
// only while it is a member of that group (C14's cross-group clause).
func H_C12_Actions() {
	state := v.Choice("state", 5)
	c, other, _, _ := zzWorld(state)
	// something happens in the group while the client is in that state
	uo := "other"
	handleClientMessage(other, clientMessage{Type: "chat", Value: "hi", Username: &uo})
	handleClientMessage(other, clientMessage{Type: "useraction", Kind: "setdata", Dest: "o", Value: map[string]interface{}{"k": "v"}})
	member := c.group != nil
	for _, a := range zzQueued(c) {
		handleAction(c, a)
	}
	for _, m := range zzDrain(c) {
		if m.Type == "user" {
			v.Assert(member, "user events reach only current members")
		}
	}
	v.Reach("end")
}

// models of the configuration readers (files on disk in the real code)
func zzICEConf() *webrtc.Configuration            { return nil }
func zzGetConf() (*group.Configuration, error) { return &group.Configuration{}, nil }


var zzTokPerms = []string{"op", "present", "message", "token", "record"}

// H_C11_MakeToken: a member with the rights of any role asks for a token
// carrying ANY list of up to N permissions (in any order, with repetitions),
// with or without expiry, for its own or another group: a token is stored
// only if the creator holds 'token' and EVERY listed permission, the token is
// for the creator's own group, not hierarchical, and expires.
func H_C11_MakeToken() {
	n := 1 + v.Choice("n", v.Param("N"))
	var ps []interface{}
	var pl []string
	for i := 0; i < n; i++ {
		p := zzTokPerms[v.Choice(v.Idx("p", i), len(zzTokPerms))]
		ps = append(ps, p)
		pl = append(pl, p)
	}
	shape := v.Choice("shape", 4) // 0 well-formed, 1 no expiry, 2 another group, 3 hierarchical
	c, _, _, _ := zzWorld(1)
	zzLastToken = nil
	val := map[string]interface{}{"group": "g", "expires": "2100-01-01T00:00:00Z", "permissions": ps}
	switch shape {
	case 1:
		delete(val, "expires")
	case 2:
		val["group"] = "elsewhere"
	case 3:
		val["includeSubgroups"] = true
	}
	perms := append([]string(nil), c.permissions...)
	handleClientMessage(c, clientMessage{Type: "groupaction", Kind: "maketoken", Group: "g", Value: val})
	if zzLastToken != nil {
		v.Assert(zzHasPerm(perms, "token"), "token creation needs 'token'")
		for _, p := range pl {
			v.Assert(zzHasPerm(perms, p), "token creation can only delegate permissions the creator holds")
		}
		v.Assert(len(zzLastToken.Permissions) == len(pl), "the stored token carries the requested permissions, no more")
		v.Assert(zzLastToken.Group == "g" && !zzLastToken.IncludeSubgroups, "the token is for the creator's own group only")
		v.Assert(zzLastToken.Expires != nil, "the token expires")
		v.Reach("created")
	}
	v.Reach("end")
}

// H_C15_Replay: broadcast chat is replayed, in order and unaltered, to a
// later joiner: member "o" sends k broadcast chat messages, then a new client
// joins and handles its queued actions; the chathistory messages it is sent
// are exactly the group's history, in order, with the true source, username
// and value, and nothing else claims to be history.
func H_C15_Replay() {
	k := v.Choice("k", 4)
	_, other, g, _ := zzWorld(1)
	uo := "other"
	vals := []string{"v0", "v1", "v2"}
	for i := 0; i < k; i++ {
		handleClientMessage(other, clientMessage{Type: "chat", Source: "o", Username: &uo, Value: vals[i]})
	}
	hist := g.GetChatHistory()
	v.Assert(len(hist) == k, "every broadcast chat message of a member with 'message' enters the history")
	j := zzNewClient("j")
	um := "me"
	handleClientMessage(j, clientMessage{Type: "join", Kind: "join", Group: "g", Username: &um, Password: "pw"})
	v.Assert(j.group != nil, "the joiner is admitted")
	for _, a := range zzQueued(j) {
		handleAction(j, a)
	}
	n := 0
	for _, m := range zzDrain(j) {
		if m.Type != "chathistory" {
			continue
		}
		v.Assert(n < k, "no more history than was said")
		if n < k {
			s, ok := m.Value.(string)
			v.Assert(ok && s == vals[n], "the history is replayed in order with its values unaltered")
			v.Assert(m.Source == "o" && m.Username != nil && *m.Username == "other", "with the true id and username of the member that sent each message")
			v.Assert(m.Id == hist[n].Id && m.Kind == hist[n].Kind, "and its id and kind")
		}
		n++
	}
	v.Assert(n == k, "the whole history is replayed to a later joiner")
	v.Reach("end")
}
