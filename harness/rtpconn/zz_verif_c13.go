//go:build verif || verifreplay

package rtpconn

import (
	"github.com/jech/galene/group"
	"github.com/jech/galene/unbounded"
	v "github.com/jech/galene/zzverif"
)

// H_C13_Whip: a WHIP client and a web client in one group: joins, the
// teardown of the WHIP session, permission queries: lockset on the WHIP
// client's guarded fields and lock order between client and group mutexes.
func H_C13_Whip() {
	present, _ := group.NewPermissions("present")
	pw := "pw"
	desc := &group.Description{Users: map[string]group.UserDescription{
		"w": {Password: group.Password{Type: "plain", Key: &pw}, Permissions: present},
		"m": {Password: group.Password{Type: "plain", Key: &pw}, Permissions: present},
	}}
	g, _ := group.Add("g", desc)
	wc := NewWhipClient(g, "wid", "", nil)
	uw, um := "w", "m"
	_, err := group.AddClient("g", wc, group.ClientCredentials{Username: &uw, Password: "pw"})
	v.Assert(err == nil, "the WHIP client joins")
	switch v.Choice("op", 5) {
	case 0:
		// another client joins while the WHIP client is a member
		c := zzNewClient("m")
		handleClientMessage(c, clientMessage{Type: "join", Kind: "join", Group: "g", Username: &um, Password: "pw"})
	case 1:
		wc.Close()
	case 2:
		wc.Kick("", nil, "bye")
	case 3:
		wc.SetETag("e")
		wc.ETag()
		wc.Permissions()
	case 4:
		c := zzNewClient("m")
		handleClientMessage(c, clientMessage{Type: "join", Kind: "join", Group: "g", Username: &um, Password: "pw"})
		wc.RequestConns(c, g, "")
	}
	v.Reach("end")
}

// H_C13_Queue: the client action queue, sequentially: everything put is
// returned exactly once, in order; the signal channel holds a token exactly
// when the queue went from empty to non-empty since the last drain.  (The
// lockset obligation on Channel.queue is what excludes lost wake-ups under
// concurrency: the empty test is made under the lock.)
func H_C13_Queue() {
	ch := unbounded.New[int]()
	n := 1 + v.Choice("n", 3)
	for i := 0; i < n; i++ {
		ch.Put(int(v.U8(v.Idx("x", i))))
	}
	signalled := false
	select {
	case <-ch.Ch:
		signalled = true
	default:
	}
	v.Assert(signalled, "a non-empty queue has signalled its consumer")
	got := ch.Get()
	v.Assert(len(got) == n, "every queued item is returned")
	for i := 0; i < n; i++ {
		v.Assert(got[i] == int(v.U8(v.Idx("x", i))), "in queue order")
	}
	v.Assert(len(ch.Get()) == 0, "exactly once")
	ch.Put(7)
	signalled = false
	select {
	case <-ch.Ch:
		signalled = true
	default:
	}
	v.Assert(signalled, "the next item after a drain signals again")
	v.Reach("end")
}
