//go:build verif || verifreplay

package packetmap

import v "github.com/jech/galene/zzverif"

// before reports whether a precedes b in the mod-2^16 order.
func before(a, b uint16) bool {
	return a != b && ((b-a)&0x8000) == 0
}

// inWindow: consecutive arrivals stay within the 8192-packet
// re-synchronisation window, measured like the implementation does from the
// successor of the newest packet seen (either direction).
func inWindow(newest, s uint16) bool {
	next := newest + 1
	return uint16(s-next) <= 8192 || uint16(next-s) <= 8192
}

const maxOps = 16

// hist is the SPECIFICATION's memory of a history: which source numbers were
// withheld, and which were forwarded under which number.  It is updated from
// arguments and results of the public API only.
type hist struct {
	w      [maxOps]uint16 // withheld source seqnos
	nw     int
	fs, fo [maxOps]uint16 // forwarded: source, outgoing
	fp     [maxOps]uint16 // pid delta returned
	nf     int
	newest uint16 // newest source seqno seen so far
	have   bool
	// how far each withheld / forwarded packet lies behind newest, NOT reduced
	// mod 2^16: histories may span more than half the number circle (K=4 jumps
	// of 8192 do), where the mod-2^16 order of two numbers no longer says
	// which packet came first
	wOff, fOff [maxOps]uint32
}

// rel: position of s relative to newest (s is within the 8192 window)
func (h *hist) rel(s uint16) int32 { return int32(int16(s - h.newest)) }

// advance: newest moves forward to s
func (h *hist) advance(s uint16) {
	if h.have {
		d := uint32(uint16(s - h.newest))
		for j := 0; j < h.nw; j++ {
			h.wOff[j] += d
		}
		for j := 0; j < h.nf; j++ {
			h.fOff[j] += d
		}
	}
	h.newest, h.have = s, true
}

// withheldBefore counts the withheld packets that precede s.
func (h *hist) withheldBefore(s uint16) uint16 {
	var n uint16
	for j := 0; j < h.nw; j++ {
		n += v.IteU16(int32(h.wOff[j])+h.rel(s) > 0, 1, 0)
	}
	return n
}

func (h *hist) isWithheld(s uint16) bool {
	r := false
	for j := 0; j < h.nw; j++ {
		r = v.Or(r, v.And(h.w[j] == s, int32(h.wOff[j])+h.rel(s) == 0))
	}
	return r
}

// step feeds one arriving packet through Drop-or-Map exactly like
// rtpDownTrack.Write does, and checks the property on the result.
func (h *hist) step(m *Map, i int, wantDrop bool, fixed bool, sfix uint16) {
	s := sfix
	if !fixed {
		s = v.U16(v.Idx("s", i))
	}
	p := v.U16(v.Idx("p", i))
	if h.have {
		v.Assume(inWindow(h.newest, s))
	}
	inOrder := !h.have || before(h.newest, s)
	if wantDrop {
		if m.Drop(s, p) {
			v.Assert(inOrder, "only an in-order packet is ever withheld")
			h.advance(s)
			h.w[h.nw] = s
			h.wOff[h.nw] = 0
			h.nw++
			v.Reach("withheld")
			return
		}
	}
	ok, out, _ := m.Map(s, p)
	if !ok {
		v.Assert(!inOrder, "an in-order packet is always forwarded")
		v.Reach("refused")
		return
	}
	v.Assert(!h.isWithheld(s), "a withheld packet is never forwarded later")
	v.Assert(out == s-h.withheldBefore(s), "outgoing seqno = incoming - number of earlier withheld packets")
	dup, uniq, ord := true, true, true
	for j := 0; j < h.nf; j++ {
		dup = v.And(dup, v.Implies(h.fs[j] == s, h.fo[j] == out))
		uniq = v.And(uniq, v.Implies(h.fs[j] != s, h.fo[j] != out))
		dist := int32(h.fOff[j]) + h.rel(s) // how far s lies after forwarded packet j (unreduced)
		ord = v.And(ord, v.Implies(v.And(dist > 0, dist < 0x4000), before(h.fo[j], out)))
	}
	v.Assert(dup, "a duplicate/late copy gets the number of the first copy")
	if v.Param("full") == 1 {
		// consequences of the formula above (given that only in-order
		// packets are withheld); stated separately in the thorough tier
		v.Assert(uniq, "two different forwarded packets never share a number")
		v.Assert(ord, "source order is preserved")
	}
	if inOrder {
		h.advance(s)
	}
	h.fs[h.nf], h.fo[h.nf] = s, out
	h.fOff[h.nf] = uint32(-h.rel(s))
	h.nf++
	v.Reach("forwarded")
}

// prefixes are in-order set-up histories (M = forwarded, D = offered for
// withholding) over consecutive sequence numbers from a symbolic base; they
// put the map into states with one or more offset intervals at almost no
// path cost, so that the K free operations that follow explore the
// interesting neighbourhood (late copies, duplicates, gaps next to drops).
var prefixes = []string{"", "MDM", "MDMDDM", "MMDMDMD", "DM"}

func (h *hist) history(m *Map, K int) {
	pat := prefixes[v.Choice("prefix", len(prefixes))]
	var drop [maxOps]bool
	for i := 0; i < K; i++ {
		drop[i] = v.Choice("drop", 2) == 1
	}
	base := v.U16("base")
	n := len(pat)
	for i := 0; i < n; i++ {
		h.step(m, i, pat[i] == 'D', true, base+uint16(i))
	}
	for i := 0; i < K; i++ {
		h.step(m, n+i, drop[i], false, 0)
	}
}

// H_C01_BMC: every history made of a set-up prefix followed by K arbitrary
// arrivals (any start seqno, wraparound, loss, duplicates, reordering, any
// drop pattern) inside the re-synchronisation window.
func H_C01_BMC() {
	var m Map
	var h hist
	h.history(&m, v.Param("K"))
	v.Reach("end")
}

// H_C03_BMC: after such a history, a NACK for ANY outgoing number o is
// answered by Reverse with the source packet that was forwarded as o, or
// refused; never with a withheld packet.
func H_C03_BMC() {
	var m Map
	var h hist
	h.history(&m, v.Param("K"))
	o := v.U16("nack")
	ok, s, _ := m.Reverse(o)
	if ok {
		if h.have {
			v.Assume(inWindow(h.newest, s))
		}
		v.Assert(!h.isWithheld(s), "a NACK never resurrects a withheld packet")
		v.Assert(o == s-h.withheldBefore(s), "Reverse(o) is a source packet that was (or would be) forwarded as o")
		same := true
		for j := 0; j < h.nf; j++ {
			same = v.And(same, v.Implies(h.fo[j] == o, h.fs[j] == s))
		}
		v.Assert(same, "Reverse returns the packet originally sent under that number")
		// re-running Map (as gotNACK -> Write does) re-applies the same number
		ok2, out2, _ := m.Map(s, 0)
		v.Assert(v.Implies(ok2, out2 == o), "re-mapping the source packet yields the NACKed number again")
		v.Reach("reversed")
	}
	v.Reach("end")
}

// H_C01_LongRun: one withheld packet, then N packets forwarded in order (the
// receiver is at full quality for a minute or two: no further offset
// change), then a late copy of one of the last 8192 packets and a NACK for
// its outgoing number: the late copy must get the number of its first copy
// and the NACK must name the packet that was sent under that number.  This is
// the history that the K-step obligations cannot reach.
func H_C01_LongRun() {
	var m Map
	base := v.U16("base")
	ok0, _, _ := m.Map(base, 0)
	v.Assert(ok0 && m.Drop(base+1, 0), "set-up: one packet forwarded, its successor withheld")
	N := v.Param("N")
	v.Unwind(N + 100)
	for i := 0; i < N; i++ {
		s := base + 2 + uint16(i)
		ok, out, _ := m.Map(s, 0)
		v.Assert(ok && out == s-1, "in-order packets after one withheld packet are renumbered by one")
	}
	back := v.U16("back")
	v.Assume(back >= 1 && back <= 8192 && int(back) <= N)
	t := base + 2 + uint16(N) - back
	ok, out, _ := m.Map(t, 0)
	v.Assert(v.Implies(ok, out == t-1), "a late copy gets the number of its first copy")
	if ok {
		v.Reach("late-forwarded")
	}
	ok2, s2, _ := m.Reverse(t - 1)
	v.Assert(v.Implies(ok2, s2 == t), "a NACK is answered with the packet originally sent under that number")
	if ok2 {
		v.Reach("nack-answered")
	}
	v.Reach("end")
}

// H_C01_WrappedOffset: 65536 consecutive withheld packets (none forwarded in
// between) bring the 16-bit offset back to 0 while the interval table is not
// empty.  The history that FOLLOWS must still be numbered correctly: the next
// packet keeps its number (offset = one full cycle), a further withheld packet
// closes its gap, its late copy is refused, and a NACK names the right packet.
// With late=1 the late copy is of a packet withheld BEFORE the wrap.
func H_C01_WrappedOffset() {
	var m Map
	s := v.U16("seqno")
	p := v.U16("pid")
	m.Map(s-1, p)
	v.Unwind(70000)
	for i := 0; i < 65536; i++ {
		if !m.Drop(s+uint16(i), p) {
			v.Assert(false, "an in-order packet above the layer can be withheld")
		}
	}
	ok0, o0, _ := m.Map(s, p)
	v.Assert(ok0 && o0 == s, "after 65536 withheld packets the next packet is forwarded under its own number minus a full cycle")
	if v.Param("late") == 1 {
		k := v.U16("k")
		v.Assume(k >= 1 && k <= 8000)
		v.Reach("wrapped")
		okq, _, _ := m.Map(s-k, p)
		v.Assert(!okq, "a late copy of a packet withheld before the offset wrapped is never forwarded")
		return
	}
	okd := m.Drop(s+1, p)
	v.Assert(okd, "the next in-order packet can be withheld")
	ok2, o2, _ := m.Map(s+2, p)
	v.Assert(ok2 && o2 == s+1, "the gap left by the withheld packet is closed")
	okl, _, _ := m.Map(s+1, p)
	v.Assert(!okl, "a late copy of the withheld packet is never forwarded")
	okd0, od0, _ := m.Map(s, p)
	v.Assert(v.Implies(okd0, od0 == o0), "a duplicate keeps the number of the first copy")
	okr, r, _ := m.Reverse(s + 1)
	v.Assert(v.Implies(okr, r == s+2), "a NACK for a forwarded number names the packet that was sent under it")
	v.Reach("end")
}

// H_C01_HalfCircle: a history that spans more than half the number circle in
// a few jumps of (almost) 8192: one packet withheld at base+1, then in-order
// arrivals at base+0x1fff, +0x3fff, +0x6000, +0x8001.  The last one lies
// exactly 0x8000 after the withheld packet, where the mod-2^16 comparison of
// the two numbers no longer says which came first; it must still be
// numbered source - 1.  (The first version of this specification compared
// numbers mod 2^16 and raised a false alarm here at K=4: DESIGN S.3.)
func H_C01_HalfCircle() {
	var m Map
	var h hist
	base := v.U16("base")
	h.step(&m, 0, false, true, base)
	h.step(&m, 1, true, true, base+1)
	h.step(&m, 2, false, true, base+2)
	h.step(&m, 3, true, true, base+0x1fff)
	h.step(&m, 4, false, true, base+0x3fff)
	h.step(&m, 5, false, true, base+0x6000)
	h.step(&m, 6, true, true, base+0x8001)
	ok, out, _ := m.Map(base+0x8001, 0)
	v.Assert(ok && out == base+0x8000, "a packet half a circle after the withheld one is still numbered source - 1")
	v.Reach("end")
}
