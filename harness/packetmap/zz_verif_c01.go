//go:build verif || verifreplay

package packetmap

import v "github.com/jech/galene/zzverif"

// H_C01_Smoke: three operations from the zero Map with a symbolic first
// sequence number.
func H_C01_Smoke() {
	var m Map
	s := v.U16("s")
	p := v.U16("p")
	ok, out, pd := m.Map(s, p)
	v.Assert(ok && out == s && pd == 0, "first packet maps to itself")
	d := m.Drop(s+1, p)
	v.Assert(d, "drop of the in-order successor is accepted")
	ok2, out2, _ := m.Map(s+2, p)
	v.Assert(ok2 && out2 == s+1, "after one drop the next packet is renumbered by one")
	v.Reach("end")
}
