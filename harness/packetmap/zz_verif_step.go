//go:build verif || verifreplay

package packetmap

import (
	v "github.com/jech/galene/zzverif"
)

// ---- inductive step over an ARBITRARY interval table ----
//
// The K-step obligations start from the zero Map.  These start from ANY Map
// state with n <= 3 intervals that satisfies the representation invariant
// zzInv below, run ONE operation with arbitrary arguments, and check that
//   (1) the invariant is preserved (so the argument applies to histories of
//       any length, as long as the table has not wrapped its 128 entries),
//   (2) the operation's answer is what the table said before (a late copy or
//       duplicate gets the number of its first copy; what is in no interval -
//       a withheld packet - is refused),
//   (3) no earlier answer changes: for EVERY source number r in the window
//       the table maps r after the operation exactly as before (the offset
//       never changes retroactively), a newly forwarded packet is mapped to
//       source + current offset and recorded, a withheld one lowers the
//       offset by exactly one and is recorded nowhere,
//   (4) the target ranges of the intervals stay disjoint and ordered
//       (uniqueness and order of forwarded numbers; part of the invariant).
// "number = source - #withheld before" follows by induction: the offset used
// for a new packet is the current one, which moves by exactly one per
// withheld packet and only in order.

const zzWin = 8192

// back: how far x lies behind next (mod 2^16)
func (m *Map) zzBack(x uint16) uint16 { return m.next - x }

// zzInvS: the representation invariant (structure).  Distances are measured
// backwards from next so that no mod-2^16 comparison is needed.  Intervals
// are contiguous in source space except for withheld packets: the gap
// between two intervals is EXACTLY the number of packets withheld between
// them (the difference of their offsets), and the distance from the last
// interval's end to next is exactly the number withheld since.  Hence the
// target ranges abut: forwarded numbers are unique, ordered and gap-free.
func zzInvS(m *Map) bool {
	n := len(m.entries)
	if n == 0 {
		return v.And3(m.entries == nil, m.delta == 0, m.pidDelta == 0)
	}
	ok := v.And(m.started, int(m.lastEntry) == n-1)
	for i := 0; i < n; i++ {
		e := m.entries[i]
		bf := m.zzBack(e.first)
		ok = v.And3(ok, e.count >= 1, e.count <= zzWin+1) // a jump of exactly 8192 ahead yields 8193
		ok = v.And(ok, bf >= e.count) // ends at or before next
		if i+1 < n {
			f := m.entries[i+1]
			end := bf - e.count     // distance of this interval's end behind next
			bn := m.zzBack(f.first) // distance of the next interval's start
			g := e.delta - f.delta  // packets withheld between the two
			ok = v.And3(ok, end >= bn, end-bn == g)
		}
	}
	last := m.entries[n-1]
	h := last.delta - m.delta // withheld since the last forwarded packet
	room := m.zzBack(last.first) - last.count
	return v.And(ok, room == h)
}

// zzInvB: the bounds under which the step is claimed (assumed of the
// pre-state, not re-established): every interval lies within 24576 behind
// next (older, stale intervals are outside the claim: see the known finding),
// fewer than 8191 packets withheld in a row.
func zzInvB(m *Map) bool {
	n := len(m.entries)
	if n == 0 {
		return true
	}
	ok := m.zzBack(m.entries[0].first) <= 3*zzWin
	for i := 0; i+1 < n; i++ {
		ok = v.And(ok, m.entries[i].delta-m.entries[i+1].delta < zzWin-1)
	}
	return v.And(ok, m.entries[n-1].delta-m.delta < zzWin-1)
}

// zzF: what the table says about source number q (a reference reading of the
// intervals, straight-line, in distances behind next).
func (m *Map) zzF(q uint16) (bool, uint16) {
	if m.entries == nil {
		return true, q
	}
	b := m.zzBack(q)
	found := false
	out := uint16(0)
	for i := range m.entries {
		e := m.entries[i]
		bf := m.zzBack(e.first)
		in := v.And3(b >= 1, b <= bf, b > bf-e.count)
		found = v.Or(found, in)
		out = v.IteU16(in, q+e.delta, out)
	}
	return found, out
}

func zzArbitraryMap(n int) *Map {
	m := &Map{started: true, next: v.U16("next"), nextPid: v.U16("nextPid"), delta: v.U16("delta"), pidDelta: v.U16("pidDelta")}
	if n > 0 {
		m.entries = make([]entry, n)
		for i := range m.entries {
			m.entries[i] = entry{first: v.U16(v.Idx("first", i)), count: v.U16(v.Idx("count", i)), delta: v.U16(v.Idx("edelta", i)), pidDelta: v.U16(v.Idx("epid", i))}
		}
		m.lastEntry = uint16(n - 1)
	}
	v.Assume(v.And(zzInvS(m), zzInvB(m)))
	return m
}

func zzCopyMap(m *Map) *Map {
	c := &Map{started: m.started, next: m.next, nextPid: m.nextPid, delta: m.delta, pidDelta: m.pidDelta, lastEntry: m.lastEntry}
	if m.entries != nil {
		c.entries = append([]entry(nil), m.entries...)
	}
	return c
}

// H_C01_Step: one Map or Drop from an arbitrary table.
func H_C01_Step() {
	n := v.Choice("n", 4)
	op := v.Choice("op", 3) // 0: Map of a new packet (at or ahead of next), 1: Map of a late packet (behind next), 2: Drop
	m := zzArbitraryMap(n)
	pre := zzCopyMap(m)
	q := v.U16("q")
	pid := v.U16("pid")
	r := v.U16("r") // any other source number in the window behind next
	v.Assume(pre.zzBack(r) >= 1 && pre.zzBack(r) <= zzWin)
	fr, or := pre.zzF(r)
	switch op {
	case 0:
		v.Assume(q-pre.next <= zzWin)
		ok, o, pd := m.Map(q, pid)
		v.Assert(ok && o == q+pre.delta, "a new packet is forwarded as its source number plus the current offset")
		v.Assert(pd == pre.pidDelta || n == 0, "with the current picture-id shift")
		f2, o2 := m.zzF(q)
		v.Assert(f2 && o2 == o, "and that number is recorded: a duplicate or late copy will get the same")
		v.Assert(m.next == q+1 && m.delta == pre.delta, "the offset does not move when a packet is forwarded")
		v.Reach("new")
	case 1:
		b := pre.zzBack(q)
		v.Assume(b >= 1 && b <= zzWin)
		fq, oq := pre.zzF(q)
		ok, o, _ := m.Map(q, pid)
		v.Assert(ok == fq, "a late packet is forwarded exactly if the table has its number: what was withheld is never forwarded later")
		v.Assert(v.Implies(ok, o == oq), "a duplicate or late copy gets the number of the first copy")
		v.Assert(m.next == pre.next && m.delta == pre.delta, "a late packet moves nothing")
		v.Reach("late")
	case 2:
		ok := m.Drop(q, pid)
		v.Assert(ok == (q == pre.next), "only the next in-order packet can be withheld")
		if ok {
			v.Assert(m.delta == pre.delta-1 && m.next == q+1, "withholding lowers the offset by exactly one")
			fq, _ := m.zzF(q)
			v.Assert(v.Or(!fq, n == 0 && false), "the withheld packet is in no interval: it can never be forwarded later")
			v.Reach("dropped")
		} else {
			v.Assert(m.delta == pre.delta && m.next == pre.next, "a refused drop changes nothing")
		}
	}
	v.Assert(zzInvS(m), "the representation invariant is preserved: intervals stay contiguous up to withheld packets, so forwarded numbers stay unique, ordered and gap-free")
	// no earlier answer changes
	f3, o3 := m.zzF(r)
	if op == 0 && q != pre.next {
		// packets skipped over by a jump ahead are reserved (they may still arrive): only r that was there before must be stable
		v.Assert(v.Implies(fr, f3 && o3 == or), "what the table said about any earlier packet is unchanged")
	} else if n == 0 && op == 2 {
		v.Assert(v.Implies(m.zzBack(r) <= zzWin && r != q, f3 && o3 == or), "what the table said about any earlier packet is unchanged")
	} else {
		v.Assert(v.Implies(r != q || op == 1, f3 == fr && v.Implies(fr, o3 == or)), "what the table said about any earlier packet is unchanged: the offset never changes retroactively")
	}
	v.Reach("end")
}

// H_C03_Step: Reverse on an arbitrary table inverts the table.
func H_C03_Step() {
	n := v.Choice("n", 4)
	m := zzArbitraryMap(n)
	o := v.U16("o")
	r := v.U16("r")
	b := m.zzBack(r)
	v.Assume(b >= 1 && b <= zzWin)
	fr, or := m.zzF(r)
	ok, src, _ := m.Reverse(o)
	if ok && n > 0 {
		fs, os := m.zzF(src)
		v.Assert(fs && os == o, "a NACK is answered with a packet that was forwarded under exactly that number")
		v.Reach("answered")
	}
	if n > 0 {
		v.Assert(v.Implies(v.And(fr, or == o), ok && src == r), "a NACK for the number of any forwarded packet in the window names that packet")
	}
	v.Reach("end")
}

// H_C01_InvReach: the representation invariant assumed by the inductive step
// is not stronger than reality: every state reached by a set-up prefix plus K
// arbitrary arrivals from the zero Map satisfies it (so the step's
// assumption excludes no state that such histories produce).
func H_C01_InvReach() {
	var m Map
	var h hist
	h.history(&m, v.Param("K"))
	if len(m.entries) <= 4 {
		v.Assert(zzInvS(&m), "every reachable interval table satisfies the representation invariant the inductive step starts from")
	}
	v.Reach("end")
}
