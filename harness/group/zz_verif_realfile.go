//go:build verif || verifreplay

package group

import (
	"os"

	v "github.com/jech/galene/zzverif"
)

// These harnesses run the REAL readDescription / rewriteDescriptionFile /
// descriptionUnchanged / getDescriptionFile.  The files live in the ghost
// file system of the symbolic run (engine/ghostfs.go: a file is the list of
// values handed to json.Encoder.Encode plus a (size, mtime) version; every
// modification moves mtime by one nanosecond) and in a real temporary
// directory in the native replay.

func zzWritableConf() (*Configuration, error) { return &Configuration{WritableGroups: true}, nil }

func zzGroupsDir() func() {
	dir, _ := os.MkdirTemp("", "zzverif-groups")
	Directory = dir
	return func() { os.RemoveAll(dir) }
}

func zzInitialDesc() *Description {
	kA, kW := "hash-of-alice", "hash-of-wildcard"
	pA, _ := NewPermissions("present")
	pW, _ := NewPermissions("message")
	return &Description{
		DisplayName:  "old",
		Users:        map[string]UserDescription{"alice": {Password: Password{Type: "bcrypt", Key: &kA}, Permissions: pA}},
		WildcardUser: &UserDescription{Password: Password{Type: "bcrypt", Key: &kW}, Permissions: pW},
		AuthKeys:     []map[string]interface{}{{"kty": "oct", "k": "secret"}},
	}
}

// what a restarted server reads from the definition file
type zzDescSnap struct {
	state    int // 0 no definition, 1 readable definition, -1 unreadable file
	display  string
	alice    bool
	alicePw  string
	aliceP   string
	wildcard bool
	keys     int
}

func zzReadSnap(name string) zzDescSnap {
	d, err := readDescription(name, false)
	if err != nil {
		if os.IsNotExist(err) {
			return zzDescSnap{}
		}
		return zzDescSnap{state: -1}
	}
	s := zzDescSnap{state: 1, display: d.DisplayName, wildcard: d.WildcardUser != nil, keys: len(d.AuthKeys)}
	if a, ok := d.Users["alice"]; ok {
		s.alice = true
		s.aliceP = a.Permissions.name
		if a.Password.Key != nil {
			s.alicePw = *a.Password.Key
		}
	}
	return s
}

func zzFileTag(name string) string {
	t, err := GetDescriptionTag(name)
	if err != nil {
		return ""
	}
	return t
}

// one write operation of the API on group "g" (holding the current tag)
func zzWriteOp(op int) error {
	np, _ := NewPermissions("message") // as long as "present": the file keeps its size
	k := "hash-of-carol"               // as long as "hash-of-alice"
	v.Tick()
	switch op {
	case 0:
		return UpdateDescription("g", zzFileTag("g"), &Description{DisplayName: "new"})
	case 1:
		return UpdateUser("g", "alice", false, zzFileTag("g"), &UserDescription{Permissions: np})
	case 2:
		return DeleteUser("g", "alice", false, zzFileTag("g"))
	case 3:
		return SetUserPassword("g", "alice", false, Password{Type: "bcrypt", Key: &k})
	case 4:
		return SetKeys("g", nil)
	case 5:
		return DeleteDescription("g", zzFileTag("g"))
	case 6:
		return UpdateDescription("h", "", &Description{DisplayName: "created"})
	}
	return nil
}

// H_C18_Crash: a group file is replaced atomically.  The same API write is
// run once to completion in one directory (the NEW definition) and once in
// an identical second directory with a crash immediately before its k-th
// file-system mutation, for every k: a restarted server reads the complete
// old or the complete new definition, never a partial or missing one.
func H_C18_Crash() {
	op := v.Choice("op", 7)
	k := v.Choice("k", v.Param("KMAX"))
	name := "g"
	if op == 6 {
		name = "h"
	}
	cleanA := zzGroupsDir()
	defer cleanA()
	e0 := rewriteDescriptionFile(Directory+"/g.json", zzInitialDesc())
	v.Assert(e0 == nil, "set-up: the definition is written")
	eA := zzWriteOp(op)
	v.Assert(eA == nil, "the write, holding the current tag, succeeds")
	newSnap := zzReadSnap(name)

	cleanB := zzGroupsDir()
	defer cleanB()
	rewriteDescriptionFile(Directory+"/g.json", zzInitialDesc())
	oldSnap := zzReadSnap(name)
	v.Assert(oldSnap != newSnap, "the operation changes what a reader sees")
	crashed := v.Crashable(k, func() { zzWriteOp(op) })
	got := zzReadSnap(name)
	if crashed {
		v.Assert(got == oldSnap || got == newSnap, "after a crash at any step of writing a definition a restarted server reads the complete old or the complete new definition")
		v.Reach("crashed")
	} else {
		v.Assert(got == newSnap, "without a crash the write has its effect")
	}
	v.Reach("end")
}

// H_C18_CacheFresh: the running server never serves or authenticates
// against a definition that has been replaced.  Group "g" is live in memory
// (group.Add has cached its definition); the file is then rewritten through
// the API (same size: only the modification time moves) and GetDescription
// must return the new content, with the new tag.
func H_C18_CacheFresh() {
	op := v.Choice("op", 5)
	clean := zzGroupsDir()
	defer clean()
	rewriteDescriptionFile(Directory+"/g.json", zzInitialDesc())
	g, err := Add("g", nil)
	v.Assert(err == nil && g != nil, "the group is loaded from its file")
	d0, err := GetDescription("g")
	v.Assert(err == nil && d0.DisplayName == "old", "the cached definition is served while the file is unchanged")
	tag0 := zzFileTag("g")
	e1 := zzWriteOp(op)
	v.Assert(e1 == nil, "the API write succeeds")
	v.Assert(zzFileTag("g") != tag0, "the new version has a new tag")
	want := zzReadSnap("g")
	d1, err := GetDescription("g")
	v.Assert(err == nil, "the definition is still there")
	if err == nil {
		got := zzDescSnap{state: 1, display: d1.DisplayName, wildcard: d1.WildcardUser != nil, keys: len(d1.AuthKeys)}
		if a, ok := d1.Users["alice"]; ok {
			got.alice = true
			got.aliceP = a.Permissions.name
			if a.Password.Key != nil {
				got.alicePw = *a.Password.Key
			}
		}
		v.Assert(got == want, "after the file has been replaced (same size, later modification time) the running server uses the new definition, not its cached copy")
		_, tag1, e2 := GetSanitisedDescription("g")
		v.Assert(e2 == nil && tag1 == zzFileTag("g"), "and serves it with the current tag")
	}
	v.Reach("end")
}
