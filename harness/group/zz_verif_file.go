//go:build verif || verifreplay

package group

import (
	"os"
	"time"

	v "github.com/jech/galene/zzverif"
)

// ---- ghost single-file store behind readDescription / rewriteDescriptionFile ----
//
// The group "g" has one definition file.  readDescription hands out a COPY
// of its current content stamped with the file's (size, mtime) version;
// rewriteDescriptionFile replaces the content and gives the file a new
// version that differs from the old one only by ONE NANOSECOND of mtime (the
// property assumes successive versions differ in size or modification time;
// this is the smallest such difference).

var zzFile *Description // nil: the file does not exist
var zzVersion int64
var zzWrites int

func zzStamp() (int64, time.Time) { return 100, time.Unix(1700000000, zzVersion) }

func zzCopyDesc(d *Description) *Description {
	c := *d
	if d.Users != nil {
		c.Users = make(map[string]UserDescription, len(d.Users))
		for k, u := range d.Users {
			c.Users[k] = u
		}
	}
	if d.WildcardUser != nil {
		w := *d.WildcardUser
		c.WildcardUser = &w
	}
	return &c
}

func zzReadDescription(name string, allowSubgroups bool) (*Description, error) {
	if zzFile == nil || name != "g" {
		return nil, os.ErrNotExist
	}
	d := zzCopyDesc(zzFile)
	d.FileName = "/groups/g.json"
	d.fileSize, d.modTime = zzStamp()
	return d, nil
}

func zzRewriteDescriptionFile(filename string, desc *Description) error {
	zzFile = zzCopyDesc(desc)
	zzVersion++
	zzWrites++
	return nil
}

func zzDescUnchanged(name string, desc *Description) bool { return false }

func zzCurrentTag() string {
	if zzFile == nil {
		return ""
	}
	s, m := zzStamp()
	return makeETag(s, m)
}

func zzSecretGroup() {
	kA, kW := "hash-of-alice", "hash-of-wildcard"
	pA, _ := NewPermissions("present")
	pW, _ := NewPermissions("message")
	zzFile = &Description{
		DisplayName:  "old",
		Users:        map[string]UserDescription{"alice": {Password: Password{Type: "bcrypt", Key: &kA}, Permissions: pA}},
		WildcardUser: &UserDescription{Password: Password{Type: "bcrypt", Key: &kW}, Permissions: pW},
		AuthKeys:     []map[string]interface{}{{"kty": "oct", "k": "secret"}},
	}
	zzVersion, zzWrites = 1, 0
}

func zzSecretsIntact() bool {
	a, ok := zzFile.Users["alice"]
	return ok && a.Password.Key != nil && *a.Password.Key == "hash-of-alice" && a.Password.Type == "bcrypt" &&
		zzFile.WildcardUser != nil && zzFile.WildcardUser.Password.Key != nil && *zzFile.WildcardUser.Password.Key == "hash-of-wildcard" &&
		len(zzFile.AuthKeys) == 1
}

// H_C17_Sanitise: what the API hands to the response encoder never contains
// users, keys or password material; updates through the API never remove or
// alter the stored secrets they do not address; unsanitised input is refused.
func H_C17_Sanitise() {
	zzSecretGroup()
	d, tag, err := GetSanitisedDescription("g")
	v.Assert(err == nil && tag == zzCurrentTag(), "the description is served with the current tag")
	v.Assert(d.Users == nil && d.WildcardUser == nil && d.AuthKeys == nil && d.DisplayName == "old", "a served description contains no users, no wildcard user and no keys")
	wild := v.Choice("wild", 2) == 1
	name := "alice"
	if wild {
		name = ""
	}
	u, utag, err := GetSanitisedUser("g", name, wild)
	v.Assert(err == nil && utag == zzCurrentTag(), "the user is served with the current tag")
	v.Assert(u.Password.Type == "" && u.Password.Key == nil && u.Password.Salt == "" && u.Password.Hash == "", "a served user description contains no password material")

	switch v.Choice("op", 4) {
	case 0: // update the group definition
		err = UpdateDescription("g", zzCurrentTag(), &Description{DisplayName: "new"})
		v.Assert(err == nil && zzFile.DisplayName == "new", "the update is applied")
		v.Assert(zzSecretsIntact(), "updating a group definition keeps the stored users, passwords and keys")
	case 1: // update a user's permissions
		np, _ := NewPermissions("op")
		err = UpdateUser("g", name, wild, zzCurrentTag(), &UserDescription{Permissions: np})
		v.Assert(err == nil, "the update is applied")
		v.Assert(zzSecretsIntact(), "updating a user keeps its stored password and everybody else's secrets")
	case 2: // unsanitised input
		k := "x"
		e1 := UpdateUser("g", name, wild, zzCurrentTag(), &UserDescription{Password: Password{Type: "plain", Key: &k}})
		e2 := UpdateDescription("g", zzCurrentTag(), &Description{Users: map[string]UserDescription{}})
		e3 := UpdateDescription("g", zzCurrentTag(), &Description{AuthKeys: []map[string]interface{}{{}}})
		v.Assert(e1 != nil && e2 != nil && e3 != nil && zzWrites == 0, "unsanitised input is refused and nothing is written")
		v.Assert(zzSecretsIntact(), "nothing changed")
	case 3: // set one password: the others stay
		k := "new-hash"
		err = SetUserPassword("g", name, wild, Password{Type: "bcrypt", Key: &k})
		v.Assert(err == nil, "applied")
		if wild {
			v.Assert(*zzFile.Users["alice"].Password.Key == "hash-of-alice" && *zzFile.WildcardUser.Password.Key == "new-hash", "only the addressed password changes")
		} else {
			v.Assert(*zzFile.Users["alice"].Password.Key == "new-hash" && *zzFile.WildcardUser.Password.Key == "hash-of-wildcard", "only the addressed password changes")
		}
		v.Assert(len(zzFile.AuthKeys) == 1, "keys untouched")
	}
	v.Reach("end")
}

// H_C18_Conditional: conditional updates are exclusive.  Two writers read
// the SAME tag; the first one's write is acknowledged; whatever the second
// one then attempts with that (now stale) tag must fail and change nothing:
// an acknowledged update is never silently lost.  Also: a write succeeds
// only with the tag that is current inside the call, "" only for creation.
func H_C18_Conditional() {
	zzSecretGroup()
	tag := zzCurrentTag()
	np, _ := NewPermissions("op")
	first := v.Choice("first", 5)
	var err error
	switch first {
	case 0:
		err = UpdateDescription("g", tag, &Description{DisplayName: "A"})
	case 1:
		err = UpdateUser("g", "alice", false, tag, &UserDescription{Permissions: np})
	case 2:
		err = DeleteUser("g", "alice", false, tag)
	case 3:
		err = UpdateUser("g", "", true, tag, &UserDescription{Permissions: np})
	case 4:
		err = DeleteUser("g", "", true, tag)
	}
	v.Assert(err == nil && zzWrites == 1, "the first writer, holding the current tag, succeeds")
	v.Assert(zzCurrentTag() != tag, "a new version has a new tag, however little the modification time moved")
	second := v.Choice("second", 6)
	switch second {
	case 0:
		err = UpdateDescription("g", tag, &Description{DisplayName: "B"})
	case 1:
		err = UpdateUser("g", "alice", false, tag, &UserDescription{Permissions: np})
	case 2:
		err = DeleteUser("g", "alice", false, tag)
	case 3:
		err = UpdateUser("g", "", true, tag, &UserDescription{Permissions: np})
	case 4:
		err = DeleteUser("g", "", true, tag)
	case 5:
		err = UpdateUser("g", "bob", false, tag, &UserDescription{Permissions: np})
	}
	v.Assert(err != nil, "the second writer holding the same, now stale, tag is refused")
	v.Assert(zzWrites == 1, "and nothing is written: the acknowledged update is not lost")
	// creation: the empty tag only creates
	e2 := UpdateUser("g", "carol", false, "", &UserDescription{Permissions: np})
	v.Assert(e2 == nil, "If-None-Match:* (empty tag) creates an object that does not exist")
	e3 := UpdateUser("g", "carol", false, "", &UserDescription{Permissions: np})
	v.Assert(e3 != nil, "but never overwrites one that exists")
	v.Reach("end")
}
