//go:build verif || verifreplay

package group

import (
	"net"
	"time"

	"github.com/jech/galene/conn"
	v "github.com/jech/galene/zzverif"
)

// ---- fake clients (interface-level: ordinary Go in both runs) ----

type zzEvent struct {
	kind     string // joined:<kind> | push:<kind> | kick
	id       string
	username string
	perms    []string
	group    string
}

type zzClient struct {
	id       string
	username string
	perms    []string
	group    *Group
	inited   bool
	events   []zzEvent
}

func (c *zzClient) Group() *Group                 { return c.group }
func (c *zzClient) Addr() net.Addr                { return nil }
func (c *zzClient) Id() string                    { return c.id }
func (c *zzClient) Username() string              { return c.username }
func (c *zzClient) Init(u string, p []string)     { c.username, c.perms, c.inited = u, p, true }
func (c *zzClient) Permissions() []string         { return c.perms }
func (c *zzClient) Data() map[string]interface{}  { return nil }
func (c *zzClient) PushConn(g *Group, id string, up conn.Up, tracks []conn.UpTrack, replace string) error {
	return nil
}
func (c *zzClient) RequestConns(target Client, g *Group, id string) error { return nil }
func (c *zzClient) Joined(group, kind string) error {
	c.events = append(c.events, zzEvent{kind: "joined:" + kind, group: group})
	return nil
}
func (c *zzClient) PushClient(group, kind, id, username string, perms []string, data map[string]interface{}) error {
	c.events = append(c.events, zzEvent{kind: "push:" + kind, id: id, username: username, perms: perms, group: group})
	return nil
}
func (c *zzClient) Kick(id string, user *string, message string) error {
	c.events = append(c.events, zzEvent{kind: "kick"})
	return nil
}

func (c *zzClient) count(kind, id string) int {
	n := 0
	for _, e := range c.events {
		if e.kind == kind && (id == "" || e.id == id) {
			n++
		}
	}
	return n
}

func zzHas(perms []string, p string) bool {
	for _, q := range perms {
		if q == p {
			return true
		}
	}
	return false
}

// ---- function-level models ----

var zzGroup *Group

// model of group.Add (loads the description from disk in the real code):
// the group already exists.
func zzAdd(name string, desc *Description) (*Group, error) { return zzGroup, nil }

var zzGrant struct {
	username string
	perms    []string
	err      error
}

// model of (*Description).GetPermission: the credential check is C08/C09's
// subject; here it yields an arbitrary outcome.
func zzGetPermission(desc *Description, groupname string, creds ClientCredentials) (string, []string, error) {
	return zzGrant.username, zzGrant.perms, zzGrant.err
}

// ---- arbitrary group state ----

var zzPermSets = [][]string{{"present", "message"}, {"op", "present", "message"}, {}, {"message"}}

// zzArbitraryGroup: up to nmax members with arbitrary permission sets, any
// lock state and any admission-related description flags; the clock-related
// limits are placed relative to the real/symbolic clock with a margin.
func zzArbitraryGroup(nmax int) (*Group, []*zzClient) {
	now := time.Now()
	desc := &Description{
		Autolock:   v.Bool("autolock"),
		Autokick:   v.Bool("autokick"),
		MaxClients: v.Choice("maxclients", 4), // 0 = unlimited, 1..3
	}
	switch v.Choice("notbefore", 3) {
	case 1:
		t := time.Unix(now.Unix()-3600, 0)
		desc.NotBefore = &t
	case 2:
		t := time.Unix(now.Unix()+3600, 0)
		desc.NotBefore = &t
	}
	switch v.Choice("expires", 3) {
	case 1:
		t := time.Unix(now.Unix()-3600, 0)
		desc.Expires = &t
	case 2:
		t := time.Unix(now.Unix()+3600, 0)
		desc.Expires = &t
	}
	g := &Group{name: "g", description: desc, clients: map[string]Client{}}
	if v.Choice("locked", 2) == 1 {
		m := "locked"
		g.locked = &m
	}
	n := v.Choice("members", nmax+1)
	ids := []string{"m0", "m1", "m2"}
	var ms []*zzClient
	for i := 0; i < n; i++ {
		c := &zzClient{id: ids[i], username: "user-" + ids[i], perms: zzPermSets[v.Choice("mperm", 3)], group: g}
		g.clients[c.id] = c
		ms = append(ms, c)
	}
	return g, ms
}

func zzAnyOp(ms []*zzClient) bool {
	for _, m := range ms {
		if zzHas(m.perms, "op") {
			return true
		}
	}
	return false
}

// H_C10_Add: one AddClient on an ARBITRARY group state (inductive step):
// admission rules, duplicate ids, no effect on refusal, and (C14) the
// notifications of a successful join.
func H_C10_Add() {
	g, ms := zzArbitraryGroup(v.Param("members"))
	zzGroup = g
	pre := len(g.clients)
	wasLocked := g.locked != nil
	nb := v.Choice("_", 1) // keeps choice numbering stable
	_ = nb
	grantErr := v.Choice("grant", 3) // 0: non-op, 1: op, 2: refused credentials
	zzGrant.username = "newuser"
	zzGrant.err = nil
	switch grantErr {
	case 0:
		zzGrant.perms = []string{"present", "message"}
	case 1:
		zzGrant.perms = []string{"op", "present", "message"}
	default:
		zzGrant.perms = nil
		zzGrant.err = ErrBadPassword
	}
	newIds := []string{"new", "m0", ""}
	c := &zzClient{id: newIds[v.Choice("newid", 3)]}
	u := "newuser"
	res, err := AddClient("g", c, ClientCredentials{Username: &u, Password: "x"})

	desc := g.description
	if err == nil {
		v.Assert(res == g, "the joined group is returned")
		v.Assert(grantErr != 2, "bad credentials are never admitted")
		v.Assert(c.id != "" && (c.id != "m0" || len(ms) == 0), "an empty or duplicate client id is never admitted")
		if grantErr == 0 {
			v.Assert(!wasLocked, "a non-operator is never admitted to a locked group")
			v.Assert(desc.NotBefore == nil || desc.NotBefore.Unix() < time.Now().Unix(), "not before the group opens")
			v.Assert(desc.Expires == nil || desc.Expires.Unix() > time.Now().Unix(), "not after the group closes")
			v.Assert(!desc.Autokick || zzAnyOp(ms), "with autokick, only while an operator is present")
			v.Assert(desc.MaxClients == 0 || pre < desc.MaxClients, "never beyond max-clients")
		}
		v.Assert(len(g.clients) == pre+1 && g.clients[c.id] == Client(c), "the client is now a member")
		// C14: notifications
		v.Assert(c.count("joined:join", "") == 1, "the newcomer is told it joined, once")
		v.Assert(c.count("push:add", c.id) == 1, "the newcomer is told about itself")
		for _, m := range ms {
			v.Assert(c.count("push:add", m.id) == 1, "the newcomer is told about every member, once")
			v.Assert(m.count("push:add", c.id) == 1 && len(m.events) == 1, "every member is told about the newcomer, exactly once, and nothing else")
		}
		for _, e := range c.events {
			if e.kind == "push:add" {
				v.Assert(e.group == "g", "events carry the right group")
				if e.id == c.id {
					v.Assert(e.username == "newuser" && len(e.perms) == len(zzGrant.perms), "with the true username and permissions")
				}
				for _, m := range ms {
					if e.id == m.id {
						v.Assert(e.username == m.username && len(e.perms) == len(m.perms), "with the member's true username and permissions")
					}
				}
			}
		}
		v.Reach("admitted")
	} else {
		v.Assert(res == nil, "no group on refusal")
		v.Assert(len(g.clients) == pre, "a rejected client is not a member")
		if c.id != "m0" {
			v.Assert(g.clients[c.id] == nil, "a rejected client is not a member")
		}
		v.Assert(len(c.events) == 0, "a rejected client is told nothing about the group")
		for _, m := range ms {
			v.Assert(len(m.events) == 0, "a rejected client is announced to no one")
		}
		// completeness: an operator with a fresh id is always admitted
		v.Assert(!(grantErr == 1 && c.id == "new"), "operators are exempt from lock, window, autokick and capacity")
		v.Reach("refused")
	}
	v.Reach("end")
}

// H_C10_Del: one DelClient on an arbitrary group state: the member is gone,
// every remaining member is told exactly once (C14), and with autolock the
// group is locked on return if no operator remains.
func H_C10_Del() {
	g, ms := zzArbitraryGroup(v.Param("members"))
	if len(ms) == 0 {
		return
	}
	c := ms[0]
	pre := len(g.clients)
	DelClient(c)
	v.Assert(len(g.clients) == pre-1 && g.clients[c.id] == nil, "the member is gone")
	v.Assert(c.count("joined:leave", "") == 1, "the leaver is told it left")
	for _, m := range ms[1:] {
		v.Assert(m.count("push:delete", c.id) == 1, "every remaining member is told exactly once")
	}
	if g.description.Autolock && !zzAnyOp(ms[1:]) {
		v.Assert(g.locked != nil, "with autolock the group is locked as soon as its last operator has left")
		v.Reach("autolocked")
	}
	// a stranger is not removed
	stranger := &zzClient{id: "m1", group: g}
	n := len(g.clients)
	DelClient(stranger)
	v.Assert(len(g.clients) == n, "deleting a client that is not the member under that id changes nothing")
	v.Reach("end")
}
