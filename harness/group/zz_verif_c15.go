//go:build verif || verifreplay

package group

import (
	"time"

	v "github.com/jech/galene/zzverif"
)

func zzHistGroup(n int) *Group {
	g := &Group{name: "g", description: &Description{}, clients: map[string]Client{}}
	for i := 0; i < n; i++ {
		g.history = append(g.history, ChatHistoryEntry{Id: v.Idx("e", i), Source: "s", Time: time.Now(), Kind: "", Value: "x"})
	}
	return g
}

// H_C15_HistoryBound: from a history of ANY length 0..50, adding a message
// keeps at most 50 entries, in arrival order, the new one last, dropping
// only the oldest.
func H_C15_HistoryBound() {
	n := v.Choice("n", 51)
	g := zzHistGroup(n)
	u := "user"
	g.AddToChatHistory("new", "src", &u, time.Now(), "", "hello")
	h := g.GetChatHistory()
	want := n + 1
	first := 0
	if n == 50 {
		want, first = 50, 1
	}
	v.Assert(len(h) == want && len(h) <= 50, "the history never exceeds 50 entries")
	v.Assert(h[len(h)-1].Id == "new" && h[len(h)-1].Source == "src" && *h[len(h)-1].User == "user", "the new message is stored last, with its true source")
	ok := true
	for i := 0; i+1 < len(h); i++ {
		ok = ok && h[i].Id == v.Idx("e", first+i)
	}
	v.Assert(ok, "earlier messages keep their order; only the oldest is dropped")
	v.Reach("end")
}

// H_C15_HistoryAge: entries older than the configured age are never
// replayed, whatever mixture of old and recent entries the history holds
// (including: every entry is old).
func H_C15_HistoryAge() {
	g := &Group{name: "g", description: &Description{MaxHistoryAge: 60}, clients: map[string]Client{}}
	now := time.Now()
	nOld := v.Choice("old", 4)
	nNew := v.Choice("recent", 4)
	for i := 0; i < nOld; i++ {
		g.history = append(g.history, ChatHistoryEntry{Id: v.Idx("old", i), Time: now.Add(-2 * time.Hour)})
	}
	for i := 0; i < nNew; i++ {
		g.history = append(g.history, ChatHistoryEntry{Id: v.Idx("new", i), Time: now.Add(-10 * time.Second)})
	}
	h := g.GetChatHistory()
	v.Assert(len(h) == nNew, "exactly the entries within the configured age are replayed")
	for i := range h {
		v.Assert(h[i].Id == v.Idx("new", i), "in order")
	}
	v.Reach("end")
}

// H_C15_Clear: operators can remove one message, one user's messages, or everything.
func H_C15_Clear() {
	g := &Group{name: "g", description: &Description{}, clients: map[string]Client{}}
	g.history = []ChatHistoryEntry{{Id: "1", Source: "a", Time: time.Now()}, {Id: "2", Source: "b", Time: time.Now()}, {Id: "3", Source: "a", Time: time.Now()}}
	ids := func() string {
		s := ""
		for _, e := range g.GetChatHistory() {
			s += e.Id
		}
		return s
	}
	switch v.Choice("what", 5) {
	case 0:
		g.ClearChatHistory("", "")
		v.Assert(ids() == "", "everything")
	case 1:
		g.ClearChatHistory("", "a")
		v.Assert(ids() == "2", "one user's messages")
	case 2:
		g.ClearChatHistory("1", "a")
		v.Assert(ids() == "23", "one message")
	case 3:
		g.ClearChatHistory("1", "b")
		v.Assert(ids() == "123", "a message of another user is not removed")
	case 4:
		g.ClearChatHistory("", "nobody")
		v.Assert(ids() == "123", "nothing for an unknown user")
	}
	v.Reach("end")
}

// ---- C09: token branch of GetPermission ----

type zzTok struct {
	user  string
	perms []string
	err   error
	needs bool
}

func (t *zzTok) Check(host, group string) (string, []string, error) { return t.user, t.perms, t.err }
func (t *zzTok) NeedsUsername() bool                                 { return t.needs }
