//go:build verif || verifreplay

package group

import (
	"errors"

	"github.com/jech/galene/token"
	v "github.com/jech/galene/zzverif"
)

var zzTheToken *zzTok
var zzParseErr error

// model of token.Parse (signature verification and token look-up are C09's
// token-package obligations and library code): hands back the configured token.
func zzTokenParse(tok string, keys []map[string]interface{}) (token.Token, error) {
	if zzParseErr != nil {
		return nil, zzParseErr
	}
	return zzTheToken, nil
}

// H_C09_TokenBranch: Description.GetPermission with token credentials: the
// token's username overrides the client's; a client-chosen username never
// shadows a configured user; invalid usernames are refused; the permissions
// are the token's; errors of the token are refusals.
func H_C09_TokenBranch() {
	kA := "x"
	present, _ := NewPermissions("present")
	desc := &Description{Users: map[string]UserDescription{"alice": {Password: Password{Type: "plain", Key: &kA}, Permissions: present}}}
	tokUser := []string{"", "tokuser", "alice"}[v.Choice("tokuser", 3)]
	zzTheToken = &zzTok{user: tokUser, perms: []string{"message"}, needs: tokUser == ""}
	zzParseErr = nil
	switch v.Choice("tokstate", 3) {
	case 1:
		zzTheToken.err = errors.New("token has expired")
	case 2:
		zzParseErr = errors.New("bad signature")
	}
	var creds ClientCredentials
	creds.Token = "tok"
	cu := []string{"alice", "zed", "../x", ""}[v.Choice("clientuser", 4)]
	if v.Choice("hasuser", 2) == 1 {
		creds.Username = &cu
	}
	username, perms, err := desc.GetPermission("g", creds)
	switch {
	case zzParseErr != nil || zzTheToken.err != nil:
		v.Assert(err != nil && username == "" && perms == nil, "a token that does not verify or check grants nothing")
		v.Reach("bad-token")
	case creds.Username == nil && tokUser == "":
		v.Assert(errors.Is(err, ErrUsernameRequired), "a token without username needs one from the client")
	case tokUser != "":
		v.Assert(err == nil && username == tokUser, "the token's username overrides the client's")
		v.Assert(len(perms) == 1 && perms[0] == "message", "exactly the token's permissions")
		v.Reach("token-name")
	case cu == "alice":
		v.Assert(errors.Is(err, ErrDuplicateUsername), "a client-chosen username never shadows a configured user")
		v.Reach("shadow")
	case cu == "../x":
		v.Assert(err != nil && username == "", "an invalid username is refused")
	default:
		v.Assert(err == nil && username == cu && len(perms) == 1, "a free client-chosen username is accepted with the token's permissions")
		v.Reach("client-name")
	}
	v.Reach("end")
}
