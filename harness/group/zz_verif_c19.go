//go:build verif || verifreplay

package group

import (
	"os"
	"strings"

	v "github.com/jech/galene/zzverif"
)

// refValidName is the SPECIFICATION of an acceptable group name, stated
// directly on the bytes: non-empty, no backslash, and when split on '/' no
// empty component (so not absolute, no trailing or doubled slash), no "."
// and no ".." component.  Branch-free so that it stays one formula.
func refValidName(s string) bool {
	n := len(s)
	if n == 0 {
		return false
	}
	ok := true
	for i := 0; i < n; i++ {
		ok = v.And(ok, s[i] != '\\')
		start := i == 0
		if i > 0 {
			start = s[i-1] == '/'
		}
		// empty component: a '/' at a component start
		ok = v.And(ok, !v.And(start, s[i] == '/'))
		// "." component
		end1 := i+1 == n
		if i+1 < n {
			end1 = s[i+1] == '/'
		}
		ok = v.And(ok, !v.And3(start, s[i] == '.', end1))
		// ".." component
		if i+1 < n {
			end2 := i+2 == n
			if i+2 < n {
				end2 = s[i+2] == '/'
			}
			ok = v.And(ok, !v.And(v.And3(start, s[i] == '.', s[i+1] == '.'), end2))
		}
	}
	// trailing slash = empty last component
	ok = v.And(ok, s[n-1] != '/')
	return ok
}

// H_C19_Valid: validGroupName / validUsername agree with the specification
// on EVERY byte string of length 0..Lmax (all 256 byte values: NUL, '%',
// UTF-8 lead and continuation bytes, ...).
func H_C19_Valid() {
	L := v.Choice("L", v.Param("Lmax")+1)
	s := v.String("s", L)
	got := validGroupName(s)
	v.Assert(got == refValidName(s), "validGroupName accepts exactly the names without backslash and without empty, '.' or '..' components")
	v.Assert(validUsername(s) == (L == 0 || got), "usernames obey the same rule, or are empty")
	v.Reach("end")
}

// H_C19_DescFile: whatever name reaches the description layer (valid or
// not), every file name it probes is Directory + "/" + x + ".json" where x
// has no ".." component: nothing outside the groups directory is touched.
func H_C19_DescFile() {
	L := v.Choice("L", v.Param("Lmax")+1)
	s := v.String("s", L)
	Directory = "/groups"
	calls := 0
	getDescriptionFile(s, v.Bool("subgroups"), func(fn string) (int, error) {
		calls++
		v.Assert(strings.HasPrefix(fn, "/groups/") || fn == "/groups.json", "probed file lies under the groups directory")
		v.Assert(strings.HasSuffix(fn, ".json"), "probed file is a .json file")
		inner := fn[len("/groups"):]
		bad := false
		for i := 0; i+2 < len(inner); i++ {
			// "/../" or trailing "/.." cannot appear in a cleaned, rooted path
			if inner[i] == '/' && inner[i+1] == '.' && inner[i+2] == '.' && (i+3 == len(inner) || inner[i+3] == '/') {
				bad = true
			}
		}
		v.Assert(!bad, "no '..' component survives in a probed file name")
		return 0, os.ErrNotExist
	})
	v.Reach("end")
}

// H_C19_Username: whatever username the client types and whatever username
// a (valid, verified) token carries - ANY byte strings - the name that
// GetPermission hands to the group layer, and hence to member lists and to
// the disk writer, is empty or a valid name (no backslash, no empty, "." or
// ".." component).  Three credential kinds: token carrying a username, token
// without one (the client's is used), password.
func H_C19_Username() {
	kind := v.Choice("kind", 3)
	L := v.Choice("L", v.Param("Lmax")+1)
	LT := 0
	if kind == 0 {
		LT = v.Choice("LT", v.Param("Lmax")+1)
	}
	s := v.String("client", L)
	t := v.String("tokuser", LT)
	present, _ := NewPermissions("present")
	desc := &Description{WildcardUser: &UserDescription{Password: Password{Type: "wildcard"}, Permissions: present}}
	var creds ClientCredentials
	if v.Choice("hasuser", 2) == 1 {
		creds.Username = &s
	}
	switch kind {
	case 0:
		creds.Token = "tok"
		zzTheToken = &zzTok{user: t, perms: []string{"message"}, needs: false}
		zzParseErr = nil
	case 1:
		creds.Token = "tok"
		zzTheToken = &zzTok{user: "", perms: []string{"message"}, needs: true}
		zzParseErr = nil
	case 2:
		creds.Password = "pw"
	}
	username, _, err := desc.GetPermission("g", creds)
	if err == nil {
		v.Assert(v.Or(len(username) == 0, refValidName(username)), "the username a client ends up with is empty or a valid name, wherever it came from (typed, or carried by a token)")
		v.Reach("accepted")
	}
	v.Reach("end")
}
