//go:build verif || verifreplay

package group

import (
	v "github.com/jech/galene/zzverif"
)

// password kinds an entry can carry (the hashed kinds are in H_C08_Hashed)
const (
	zzPwNone     = iota // no password (type "")
	zzPwPlain           // plaintext, symbolic key
	zzPwPlainNil        // type plain, key missing (malformed)
	zzPwWildcard        // matches anything
	zzPwUnknown         // unknown type (malformed)
	zzPwKinds
)

func zzPassword(kind int, name string, L int) (Password, string) {
	switch kind {
	case zzPwPlain:
		k := v.String(name, L)
		return Password{Type: "plain", Key: &k}, k
	case zzPwPlainNil:
		return Password{Type: "plain"}, ""
	case zzPwWildcard:
		return Password{Type: "wildcard"}, ""
	case zzPwUnknown:
		return Password{Type: "rot13"}, ""
	}
	return Password{}, ""
}

// specMatches: does a password entry of this kind accept pw?
func specMatches(kind int, key, pw string) bool {
	switch kind {
	case zzPwPlain:
		return key == pw
	case zzPwWildcard:
		return true
	}
	return false
}

// H_C08_Table: the login decision table.  A users map with one named entry
// (symbolic name), an optional wildcard user, symbolic credentials: the join
// is accepted iff the username has an entry whose password matches, or has
// no entry and the wildcard user's password matches; an entry always shadows
// the wildcard; an entry without password never matches; every error is a
// refusal; the granted permissions are those of the matched entry.
func H_C08_Table() {
	L := v.Param("L")
	ekind := v.Choice("entry", zzPwKinds)
	wkind := v.Choice("wildcard", zzPwKinds+1) // last = no wildcard user
	ename := v.String("ename", 1+v.Choice("enl", L))
	epw, ekey := zzPassword(ekind, "ekey", v.Choice("ekl", L+1))
	eperm, _ := NewPermissions("present")
	wperm, _ := NewPermissions("message")
	desc := &Description{Users: map[string]UserDescription{ename: {Password: epw, Permissions: eperm}}}
	wkey := ""
	if wkind < zzPwKinds {
		var wpw Password
		wpw, wkey = zzPassword(wkind, "wkey", v.Choice("wkl", L+1))
		desc.WildcardUser = &UserDescription{Password: wpw, Permissions: wperm}
	}
	user := v.String("user", 1+v.Choice("ul", L))
	pw := v.String("pw", v.Choice("pl", L+1))

	username, perms, err := desc.GetPermission("g", ClientCredentials{Username: &user, Password: pw})

	hasEntry := user == ename
	want := false
	fromEntry := false
	if hasEntry {
		want = specMatches(ekind, ekey, pw)
		fromEntry = true
	} else if wkind < zzPwKinds {
		want = specMatches(wkind, wkey, pw)
	}
	// a username that is not a valid name is refused whatever the password
	valid := validUsername(user)
	if err == nil {
		v.Assert(want && valid, "accepted only if the named entry's password matches, or (no entry) the wildcard user's")
		v.Assert(username == user, "the username is the one presented")
		if fromEntry {
			v.Assert(len(perms) == 2 && zzHas(perms, "present") && zzHas(perms, "message"), "exactly the matched entry's rights")
		} else {
			v.Assert(len(perms) == 1 && perms[0] == "message", "exactly the wildcard user's rights")
		}
		v.Reach("accepted")
	} else {
		v.Assert(!(want && valid), "every matching credential is accepted")
		v.Assert(username == "" && perms == nil, "a refusal grants nothing")
		v.Reach("refused")
	}
	v.Reach("end")
}

// H_C08_Roles: the rights of each role under every combination of the
// group flags, as SETS.
func H_C08_Roles() {
	roles := []string{"op", "present", "message", "observe", "caption", "admin"}
	base := map[string][]string{
		"op": {"op", "present", "message", "caption", "token"}, "present": {"present", "message"}, "message": {"message"},
		"observe": {}, "caption": {"caption"}, "admin": {"admin"},
	}
	role := roles[v.Choice("role", len(roles))]
	rec := v.Choice("rec", 2) == 1
	unr := v.Choice("unr", 2) == 1
	p, err := NewPermissions(role)
	v.Assert(err == nil, "known role")
	got := p.Permissions(&Description{AllowRecording: rec, UnrestrictedTokens: unr})
	want := append([]string(nil), base[role]...)
	if rec && role == "op" {
		want = append(want, "record")
	}
	if unr && role == "present" {
		want = append(want, "token")
	}
	v.Assert(len(got) == len(want), "no right beyond the role's (plus record for operators of recording groups, token for presenters of unrestricted-token groups)")
	for _, w := range want {
		v.Assert(zzHas(got, w), "every right of the role is granted")
	}
	for i := range got {
		for j := range got {
			v.Assert(i == j || got[i] != got[j], "no right is listed twice")
		}
	}
	// raw arrays are returned unchanged
	raw := Permissions{permissions: []string{"message", "caption"}}
	r := raw.Permissions(&Description{AllowRecording: rec, UnrestrictedTokens: unr})
	v.Assert(len(r) == 2 && r[0] == "message" && r[1] == "caption", "a raw permission array is granted as is")
	_, err2 := NewPermissions("root")
	v.Assert(err2 != nil, "unknown roles are refused")
	v.Reach("end")
}

// H_C08_ConstantTime: the plaintext comparison is exact equality for all
// byte strings (length and content).
func H_C08_ConstantTime() {
	a := v.String("a", v.Choice("la", v.Param("L")+1))
	b := v.String("b", v.Choice("lb", v.Param("L")+1))
	v.Assert(ConstantTimeCompare(a, b) == (a == b), "ConstantTimeCompare(a,b) <=> a == b")
	v.Reach("end")
}
