//go:build verif || verifreplay

package group

import (
	"time"

	v "github.com/jech/galene/zzverif"
)

// H_C13_GroupOps: every exported lifecycle / query entry point of the group
// layer, run from a state with a registered group and members: the engine
// checks (lockset) that membership, lock, description, chat-history and data
// state, and the global group table, are only touched with their mutex held,
// and records which mutex is acquired while which is held (lock order).
func H_C13_GroupOps() {
	desc := &Description{Autolock: v.Choice("autolock", 2) == 1, Public: true}
	g, _ := Add("g", desc)
	Add("g/sub", &Description{})
	a := &zzClient{id: "a", username: "ua", perms: []string{"op", "present"}}
	b := &zzClient{id: "b", username: "ub", perms: []string{"present"}}
	ua, ub := "ua", "ub"
	zzGrant.username, zzGrant.perms, zzGrant.err = "ua", a.perms, nil
	AddClient("g", a, ClientCredentials{Username: &ua, Password: "x"})
	a.group = g
	zzGrant.username, zzGrant.perms = "ub", b.perms
	AddClient("g", b, ClientCredentials{Username: &ub, Password: "x"})
	b.group = g
	switch v.Choice("op", 18) {
	case 0:
		g.SetLocked(true, "m")
	case 1:
		g.Locked()
	case 2:
		g.GetClients(a)
	case 3:
		g.GetClient("b")
	case 4:
		g.UpdateData(map[string]interface{}{"k": 1})
	case 5:
		g.Data()
	case 6:
		g.Description()
	case 7:
		g.ClientCount()
	case 8:
		g.AddToChatHistory("i", "a", &ua, time.Now(), "", "hello")
		g.GetChatHistory()
		g.ClearChatHistory("i", "a")
	case 9:
		g.UserExists("ua")
	case 10:
		GetNames()
	case 11:
		GetSubGroups("g")
	case 12:
		Get("g")
	case 13:
		DelClient(b)
		DelClient(a)
		Delete("g")
	case 14:
		g.Range(func(c Client) bool { return true })
	case 15:
		g.WallOps("notice")
	case 16:
		g.Status(true, nil)
		GetPublic(nil)
	case 17:
		Shutdown("bye")
	}
	v.Reach("end")
}

func zzGetConfiguration() (*Configuration, error) { return &Configuration{}, nil }

func zzDescSame(name string, desc *Description) bool { return true }
