//go:build verif || verifreplay

package packetcache

import v "github.com/jech/galene/zzverif"

const c06MaxOps = 10

func c06before(a, b uint16) bool { return a != b && ((b-a)&0x8000) == 0 }

// nackHist is the SPECIFICATION's memory: which packets arrived, which NACK
// pairs were sent.
type nackHist struct {
	rcv    [c06MaxOps]uint16
	nr     int
	pf     [c06MaxOps]uint16 // NACK pairs sent: first seqno
	pb     [c06MaxOps]uint16 // and bitmap
	np     int
	newest uint16
	have   bool
}

func (h *nackHist) received(t uint16) bool {
	r := false
	for j := 0; j < h.nr; j++ {
		r = v.Or(r, h.rcv[j] == t)
	}
	return r
}

// named: does NACK pair (f,bm) name seqno t?
func named(f, bm, t uint16) bool {
	d := t - f - 1
	return v.Or(t == f, v.And(d < 16, (bm>>d)&1 == 1))
}

func (h *nackHist) reported(t uint16) bool {
	r := false
	for j := 0; j < h.np; j++ {
		r = v.Or(r, named(h.pf[j], h.pb[j], t))
	}
	return r
}

// nack checks a NACK pair (for an arbitrary - Skolem - seqno t it names) and records it.
func (h *nackHist) nack(f, bm, next uint16, i int) {
	t := v.U16(v.Idx("t", i))
	if named(f, bm, t) {
		v.Assert(!h.received(t), "a NACK never names a packet that has already been received")
		v.Assert(c06before(t, next), "a NACK names only packets before the requested bound")
		v.Assert(c06before(t, h.newest), "a NACK never names a packet at or beyond the newest one tracked")
		v.Assert(!h.reported(t), "the receive loop requests each missing packet at most once")
		v.Reach("named")
	}
	h.pf[h.np], h.pb[h.np] = f, bm
	h.np++
}

// nackRule mirrors the NACK part of one readLoop iteration (rtpreader.go:
// after Store, BitmapGet(seqno-unnacked) when the window head lags by more
// than `packets`); packets is the rate-derived threshold in [2,24].
func (h *nackHist) nackRule(c *Cache, s, first uint16, packets uint32, i int) {
	delta := s - first
	if (delta & 0x8000) != 0 {
		delta = 0
	}
	unnacked := uint16(4)
	if unnacked > uint16(packets) {
		unnacked = uint16(packets)
	}
	if uint32(delta) > packets {
		next := s - unnacked
		found, f, bitmap := c.BitmapGet(next)
		if found {
			v.Reach("nack")
			h.nack(f, bitmap, next, i)
		}
	}
}

func (h *nackHist) arrive(c *Cache, i int, kind int) {
	s := v.U16(v.Idx("s", i))
	packets := uint32(v.U8(v.Idx("packets", i)))
	v.Assume(packets >= 2 && packets <= 24)
	if h.have {
		// the three kinds partition the arrivals the quantifier admits
		switch kind {
		case 0: // the in-order successor
			v.Assume(s == h.newest+1)
		case 1: // ahead, leaving a gap (forward jumps stay well inside the half space)
			v.Assume(v.And(uint16(s-h.newest) >= 2, uint16(s-h.newest) < 0x4000))
		default: // duplicate or late by at most 256
			v.Assume(uint16(h.newest-s) <= 256)
		}
	}
	first, _ := c.Store(s, 0, false, false, []byte{1})
	h.rcv[h.nr] = s
	h.nr++
	if !h.have || c06before(h.newest, s) {
		h.newest, h.have = s, true
	}
	h.nackRule(c, s, first, packets, i)
}

// H_C06_NackBMC: K arrivals (loss, duplicates, reordering up to 256, wrap)
// through the readLoop NACK logic on a fresh cache.
func H_C06_NackBMC() {
	K := v.Param("K")
	var kinds [c06MaxOps]int
	for i := 1; i < K; i++ {
		kinds[i] = v.Choice("kind", 3)
	}
	c := New(4)
	var h nackHist
	for i := 0; i < K; i++ {
		h.arrive(c, i, kinds[i])
	}
	v.Reach("end")
}

// H_C06_Steady: one packet missing from a steadily arriving stream is
// requested, exactly once, by the time `packets`+unnacked+1 successors arrived.
func H_C06_Steady() {
	c := New(4)
	var h nackHist
	b := v.U16("b")
	n := v.Param("N")
	for i := 0; i < n; i++ {
		s := b + uint16(i)
		if i >= 1 {
			s++ // b+1 is the hole
		}
		first, _ := c.Store(s, 0, false, false, []byte{1})
		h.rcv[h.nr] = s
		h.nr++
		h.newest, h.have = s, true
		h.nackRule(c, s, first, 2, i)
	}
	v.Assert(h.reported(b+1), "a packet missing from a steady stream is requested")
	v.Assert(h.np == 1, "and only one request is sent")
	v.Reach("end")
}

// c06arbitraryStats builds a Cache whose statistics fields are ARBITRARY
// subject to the invariant that the reports rely on.
func c06arbitraryStats() *Cache {
	c := New(2)
	c.last = v.U16("last")
	c.cycle = v.U16("cycle")
	c.lastValid = v.Bool("lastValid")
	c.expected = v.U32("expected")
	c.received = v.U32("received")
	c.totalExpected = v.U32("totalExpected")
	c.totalReceived = v.U32("totalReceived")
	c.bitmap.valid = v.Bool("bm.valid")
	c.bitmap.first = v.U16("bm.first")
	c.bitmap.bitmap = v.U32("bm.bitmap")
	v.Assume(c.received <= c.expected)
	v.Assume(c.totalReceived <= c.totalExpected)
	// no 32-bit overflow within reach: fewer than 2^30 packets per interval and in total
	v.Assume(c.expected < 1<<30 && c.totalExpected < 1<<30)
	v.Assume(c.cycle < 0xFFFF)
	return c
}

func c06checkStats(c *Cache, s Stats) {
	v.Assert(s.Received <= s.Expected, "reported received never exceeds expected (interval)")
	v.Assert(s.TotalReceived <= s.TotalExpected, "reported received never exceeds expected (total)")
	v.Assert(c.received <= c.expected && c.totalReceived <= c.totalExpected, "counter invariant preserved")
}

// H_C06_Counters: ONE arbitrary operation from an ARBITRARY counter state
// (inductive step): Store of any seqno, Expect(n), GetStats(reset).
func H_C06_Counters() {
	c := c06arbitraryStats()
	before := c.GetStats(false)
	lastBefore := c.last
	validBefore := c.lastValid
	op := v.Choice("op", 4)
	var seq uint16
	switch op {
	case 0:
		seq = v.U16("seq")
		c.Store(seq, 0, v.Bool("kf"), false, []byte{1})
	case 1:
		n := v.Int("n")
		v.Assume(n < 1<<20)
		c.Expect(n)
	case 2:
		c.GetStats(true)
	case 3:
		c.GetStats(false)
	}
	after := c.GetStats(false)
	c06checkStats(c, after)
	if op == 0 {
		jumpedBack := validBefore && !c06before(lastBefore, seq) && lastBefore != seq && uint16(lastBefore-seq) > 0x100
		v.Assert(v.Or(jumpedBack || !validBefore, after.ESeqno >= before.ESeqno), "extended highest seqno never decreases unless the stream jumps back by more than 256")
		v.Assert(after.TotalReceived >= before.TotalReceived && after.TotalExpected >= before.TotalExpected, "totals never decrease")
	} else {
		v.Assert(after.ESeqno == before.ESeqno, "only Store moves the extended highest seqno")
		if op >= 2 {
			v.Assert(after.TotalReceived == before.TotalReceived && after.TotalExpected == before.TotalExpected, "GetStats(reset) moves counts between interval and total without changing the totals")
		}
	}
	v.Reach("end")
}

// H_C06_ToBitmap: for every strictly increasing (mod 2^16) list of N seqnos
// the NACK pairs produced by repeated ToBitmap name exactly the list.
func H_C06_ToBitmap() {
	N := 1 + v.Choice("n", v.Param("N"))
	list := make([]uint16, N)
	list[0] = v.U16("l[0]")
	for i := 1; i < N; i++ {
		d := v.U16(v.Idx("gap", i))
		v.Assume(d >= 1 && d < 0x1000)
		list[i] = list[i-1] + d
	}
	covered := make([]int, N)
	rem := list
	for len(rem) > 0 {
		f, bm, r := ToBitmap(rem)
		v.Assert(len(r) < len(rem), "ToBitmap makes progress")
		// everything named by (f,bm) is in the list
		for i := 0; i < N; i++ {
			if list[i] == f {
				covered[i]++
			}
		}
		inList := false
		for i := 0; i < N; i++ {
			inList = v.Or(inList, list[i] == f)
		}
		v.Assert(inList, "the first seqno of a NACK pair is in the list")
		for k := 0; k < 16; k++ {
			if bm&(1<<uint(k)) != 0 {
				t := f + 1 + uint16(k)
				in := false
				for i := 0; i < N; i++ {
					if list[i] == t {
						covered[i]++
						in = true
					}
				}
				v.Assert(in, "every bit of a NACK pair names a seqno of the list")
			}
		}
		rem = r
	}
	for i := 0; i < N; i++ {
		v.Assert(covered[i] == 1, "every seqno of the list is named exactly once")
	}
	v.Reach("end")
}

// c06bit: bit k of a bitmap word (false beyond 32).
func c06bit(bm uint32, k uint16) bool {
	return v.And(k < 32, (bm>>k)&1 == 1)
}

// The bitmap invariant is "bit k <=> packet first+k has been received, and
// nothing ahead of the window has been received".  It is universally
// quantified over seqnos; the step obligations below are stated for ONE
// arbitrary (Skolem) seqno t with rt = "t has been received", assumed to agree
// with the pre-state at t.  Because the post-state bit for t depends on the
// pre-state only through the bit for the same t (the code shifts, it never
// permutes), this single instance is the whole invariant.
func c06link(b *bitmap, t uint16, rt bool) bool {
	k := uint16(t - b.first)
	inWin := k < 32
	ahead := v.And(k >= 32, k < 0x8000)
	return v.And(v.Implies(inWin, rt == c06bit(b.bitmap, k)), v.Implies(ahead, !rt))
}

// c06forget: sequence numbers are reused every 65536 packets; the packet that
// carried number t more than half a cycle ago is not the packet that will
// carry it next, so "t was received" is forgotten at the moment t passes from
// behind the window into the half-space ahead of it.
func c06forget(oldFirst, newFirst, t uint16, rt bool) bool {
	entersAhead := v.And(uint16(t-oldFirst) >= 0x8000, uint16(t-newFirst) < 0x8000)
	return v.And(rt, !entersAhead)
}

// H_C06_BitmapSet: inductive step for bitmap.set.
func H_C06_BitmapSet() {
	var b bitmap
	b.valid = true
	b.first = v.U16("first")
	b.bitmap = v.U32("bitmap")
	t := v.U16("t")
	rt := v.Bool("rt")
	v.Assume(c06link(&b, t, rt))
	s := v.U16("s")
	// not a restart (Store decides that from the last seqno: the property's exception);
	// forward jumps stay well inside the half space
	v.Assume(uint16(s-b.first) < 0x4000 || c06before(s, b.first))
	old := b
	b.set(s, false)
	rt2 := v.Or(rt, t == s)
	v.Assert(b.valid, "stays valid")
	if c06before(s, old.first) {
		v.Assert(b == old, "a packet before the window leaves the bitmap alone")
		v.Reach("old")
	} else {
		v.Assert(!c06before(b.first, old.first), "the window never moves backwards")
		v.Assert(c06link(&b, t, c06forget(old.first, b.first, t, rt2)), "bit k of the new bitmap <=> first+k received; nothing ahead of the window received")
		// what leaves the window at the low end was received (set never skips a hole silently) unless it was shifted out by a jump
		v.Reach("in-window")
	}
	v.Reach("end")
}

// H_C06_BitmapGet: from an arbitrary valid bitmap, get(next) reports only
// seqnos that were not received, all in [first,next), moves the window past
// everything it looked at (so nothing is reported twice), reports every hole
// that leaves the window, and leaves the rest of the window unchanged.
func H_C06_BitmapGet() {
	var b bitmap
	b.valid = true
	b.first = v.U16("first")
	b.bitmap = v.U32("bitmap")
	t := v.U16("t")
	rt := v.Bool("rt")
	v.Assume(c06link(&b, t, rt))
	next := v.U16("next")
	old := b
	found, f, bm := b.get(next)
	if !found {
		v.Assert(bm == 0, "no bitmap without a first seqno")
	}
	if v.And(found, named(f, bm, t)) {
		v.Assert(!rt, "every reported seqno was not received")
		v.Assert(!c06before(t, old.first) && c06before(t, next), "every reported seqno lies in [first,next)")
		v.Assert(c06before(t, b.first), "every reported seqno is behind the new window (never reported again)")
		v.Reach("named")
	}
	// completeness: a hole inside the part that was shifted out is reported
	if !c06before(t, old.first) && c06before(t, b.first) && !rt {
		v.Assert(v.And(found, named(f, bm, t)), "every hole that leaves the window is reported")
		v.Reach("hole")
	}
	v.Assert(!c06before(b.first, old.first), "the window never moves backwards")
	v.Assert(c06link(&b, t, c06forget(old.first, b.first, t, rt)), "the rest of the window still agrees with what was received")
	v.Reach("end")
}

// H_C06_StoreStep: inductive step for Cache.Store as a whole (statistics and
// loss bitmap together) from an ARBITRARY established cache state: the
// bitmap window stays glued to the newest packet (first <= last+1 <= first+32)
// and keeps agreeing with what was received, for every arrival the
// quantifier admits (late by at most 256, or ahead), unless the stream
// restarts (jump back by more than 256: the property's exception).
func H_C06_StoreStep() {
	c := New(2)
	c.lastValid = true
	c.last = v.U16("last")
	c.bitmap.valid = true
	c.bitmap.first = v.U16("first")
	c.bitmap.bitmap = v.U32("bitmap")
	c.expected = 1
	c.received = 1
	glue := func() bool {
		d := uint16(c.last + 1 - c.bitmap.first)
		// window glued to the newest packet, and no bit set for a packet newer than last
		return v.And(d <= 32, c.bitmap.bitmap>>d == 0)
	}
	v.Assume(glue())
	t := v.U16("t")
	rt := v.Bool("rt")
	v.Assume(c06link(&c.bitmap, t, rt))
	v.Assume(v.Implies(rt, !c06before(c.last, t))) // nothing newer than last has been received
	s := v.U16("s")
	late := v.And(!c06before(c.last, s), uint16(c.last-s) <= 256)
	ahead := v.And(c06before(c.last, s), uint16(s-c.last) < 0x4000)
	if v.Choice("kind", 2) == 0 {
		v.Assume(late)
	} else {
		v.Assume(ahead)
	}
	oldFirst := c.bitmap.first
	c.Store(s, 0, false, false, []byte{1})
	rt2 := v.Or(rt, t == s)
	v.Assert(c.bitmap.valid && c.lastValid, "stays valid")
	v.Assert(glue(), "the bitmap window stays glued to the newest packet")
	v.Assert(!c06before(c.bitmap.first, oldFirst), "the window never moves backwards while the stream does not restart")
	v.Assert(c06link(&c.bitmap, t, c06forget(oldFirst, c.bitmap.first, t, rt2)), "the bitmap keeps agreeing with what was received")
	v.Reach("end")
}
