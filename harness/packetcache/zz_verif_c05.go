//go:build verif || verifreplay

package packetcache

import v "github.com/jech/galene/zzverif"

const c05MaxOps = 8
const c05MaxLen = 8

// stored is the SPECIFICATION's record of one Store call.
type stored struct {
	seqno  uint16
	ts     uint32
	marker bool
	n      int
	b      [c05MaxLen]byte
	index  uint16
}

type c05hist struct {
	st   [c05MaxOps]stored
	n    int
	kept int // how many of the most recent packets must still be retrievable
	// whether the index returned by the j-th Store is still guaranteed valid
	idxValid [c05MaxOps]bool
}

// matches: does (n, res[:n]) equal stored packet j exactly?
func (h *c05hist) matches(j int, seqno uint16, n uint16, res []byte) bool {
	s := &h.st[j]
	ok := v.And(s.seqno == seqno, int(n) == s.n)
	for k := 0; k < s.n; k++ {
		ok = v.And(ok, res[k] == s.b[k])
	}
	return ok
}

// someStored: (n, res[:n]) is byte-exactly one of the packets stored under seqno.
func (h *c05hist) someStored(seqno uint16, n uint16, res []byte) bool {
	r := false
	for j := 0; j < h.n; j++ {
		r = v.Or(r, h.matches(j, seqno, n, res))
	}
	return r
}

func (h *c05hist) store(c *Cache, i int, L int) {
	s := &h.st[h.n]
	s.seqno = v.U16(v.Idx("seqno", i))
	s.ts = v.U32(v.Idx("ts", i))
	s.marker = v.Bool(v.Idx("marker", i))
	kf := v.Bool(v.Idx("kf", i))
	buf := v.Bytes(v.Idx("buf", i), L)
	s.n = L
	for k := 0; k < L; k++ {
		s.b[k] = buf[k]
	}
	capacity := len(c.entries)
	_, idx := c.Store(s.seqno, s.ts, kf, s.marker, buf)
	s.index = idx
	v.Assert(int(idx) < capacity, "Store returns an index inside the cache")
	for k := 0; k < L; k++ {
		v.Assert(buf[k] == s.b[k], "Store does not modify the caller's buffer")
	}
	// a recycled slot invalidates the index of the packet that was there
	for j := 0; j < h.n; j++ {
		if h.idxValid[j] && h.st[j].index == idx {
			h.idxValid[j] = false
		}
	}
	h.idxValid[h.n] = true
	h.n++
	if h.kept < capacity {
		h.kept++
	}
}

func (h *c05hist) resize(c *Cache, capacity int, cond bool) {
	old := len(c.entries)
	tail := int(c.tail)
	if cond {
		if !c.ResizeCond(capacity) {
			v.Assert(len(c.entries) == old && int(c.tail) == tail, "a refused ResizeCond leaves the cache unchanged")
			v.Reach("resize-refused")
			return
		}
	} else {
		c.Resize(capacity)
	}
	v.Assert(len(c.entries) == capacity, "after a resize the capacity is the requested one")
	v.Assert(int(c.tail) < capacity, "tail stays inside the ring")
	if capacity < h.kept {
		h.kept = capacity
	}
	if capacity != old {
		// indices may have moved: (seqno,index) lookups are only required to be safe, not to hit
		for j := 0; j < h.n; j++ {
			h.idxValid[j] = false
		}
	}
}

// check: the fidelity and retrievability clauses on the current state.
func (h *c05hist) check(c *Cache) {
	// 1. the most recent `kept` packets are retrievable, byte-exactly
	for j := h.n - h.kept; j < h.n; j++ {
		s := &h.st[j]
		res := make([]byte, BufSize)
		n := c.Get(s.seqno, res)
		v.Assert(n > 0, "a recently stored packet (within capacity) is retrievable")
		v.Assert(h.someStored(s.seqno, n, res), "Get returns exactly a packet stored under that seqno")
		// size query
		n0 := c.Get(s.seqno, nil)
		v.Assert(n0 == n, "Get with an empty result reports the same length")
		if h.idxValid[j] {
			res2 := make([]byte, BufSize)
			n2 := c.GetAt(s.seqno, s.index, res2)
			v.Assert(h.matches(j, s.seqno, n2, res2), "GetAt(seqno, index returned by Store) returns that very packet")
		}
	}
	// 2. ANY lookup returns nothing or a stored packet
	q := v.U16("q")
	res := make([]byte, BufSize)
	n := c.Get(q, res)
	v.Assert(v.Or(n == 0, h.someStored(q, n, res)), "Get(q) returns nothing or exactly a packet stored under q")
	for k := c05MaxLen; k < c05MaxLen+4; k++ {
		v.Assert(res[k] == 0, "Get writes nothing beyond the packet")
	}
	qi := v.U16("qi")
	res3 := make([]byte, BufSize)
	n3 := c.GetAt(q, qi, res3)
	v.Assert(v.Or(n3 == 0, h.someStored(q, n3, res3)), "GetAt(q,i) returns nothing or exactly a packet stored under q")
	// 3. Last/Keyframe are seqnos that were stored
	if last, ok := c.Last(); ok {
		r := false
		for j := 0; j < h.n; j++ {
			r = v.Or(r, h.st[j].seqno == last)
		}
		v.Assert(r, "Last() is the seqno of a stored packet")
	}
}

// H_C05_BMC: every sequence of K operations (Store of a packet of length
// 1..Lmax with arbitrary seqno/contents, Resize / ResizeCond to any capacity
// 1..Cmax) from New(c0), followed by the fidelity checks.
func H_C05_BMC() {
	K := v.Param("K")
	Cmax := v.Param("Cmax")
	Lmax := v.Param("Lmax")
	c0 := 1 + v.Choice("cap0", Cmax)
	var ops [c05MaxOps]int
	for i := 0; i < K; i++ {
		// 0..Lmax-1: Store of length op+1; then Resize(c), then ResizeCond(c)
		ops[i] = v.Choice("op", Lmax+2*Cmax)
	}
	c := New(c0)
	var h c05hist
	for i := 0; i < K; i++ {
		op := ops[i]
		switch {
		case op < Lmax:
			h.store(c, i, op+1)
		case op < Lmax+Cmax:
			h.resize(c, 1+op-Lmax, false)
		default:
			h.resize(c, 1+op-Lmax-Cmax, true)
		}
	}
	h.check(c)
	v.Reach("end")
}
