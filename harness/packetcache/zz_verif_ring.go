//go:build verif || verifreplay

package packetcache

import v "github.com/jech/galene/zzverif"

// ---- inductive step over an ARBITRARY ring ----
//
// The K-step obligation starts from New(c).  These start from ANY cache with
// capacity 1..Cmax, any tail and ANY slot contents (seqno, length+marker,
// timestamp, first zzRingLen payload bytes arbitrary) and run ONE operation.
// The ring order is the specification's memory: the packet stored j calls
// ago ("age j") sits in slot (tail-1-j) mod capacity.  Shown:
//   Store  writes exactly the slot at tail (all of seqno, length, marker,
//          timestamp, bytes), moves tail by one, touches no other slot:
//          ages shift by one, the oldest is the only packet lost;
//   Get    returns a slot's packet byte-exactly (a slot with that seqno and
//          non-zero length), and finds one whenever such a slot exists;
//   Resize keeps, in order, the min(old,new) most recent ages, byte-exactly.
// By induction over any number of calls: each of the last `capacity` stored
// packets is in the ring and Get returns exactly what was stored.

const zzRingLen = 2

type zzSlot struct {
	seqno uint16
	lam   uint16
	ts    uint32
	b     [zzRingLen]byte
}

func zzSlotOf(e *entry) zzSlot {
	s := zzSlot{seqno: e.seqno, lam: e.lengthAndMarker, ts: e.timestamp}
	for k := 0; k < zzRingLen; k++ {
		s.b[k] = e.buf[k]
	}
	return s
}

func zzArbitraryRing(capacity int) *Cache {
	c := New(capacity)
	for i := 0; i < capacity; i++ {
		e := &c.entries[i]
		e.seqno = v.U16(v.Idx("e.seqno", i))
		n := v.U16(v.Idx("e.len", i))
		v.Assume(n <= zzRingLen) // 0 = empty slot
		e.lengthAndMarker = n
		mk := v.Bool(v.Idx("e.marker", i))
		v.Assume(n > 0 || !mk) // an empty slot is all zero: packets are never empty
		if mk {
			e.lengthAndMarker |= 0x8000
		}
		e.timestamp = v.U32(v.Idx("e.ts", i))
		for k := 0; k < zzRingLen; k++ {
			e.buf[k] = v.U8(v.Idx(v.Idx("e.b", i), k))
		}
	}
	t := v.U16("tail")
	v.Assume(int(t) < capacity)
	c.tail = t
	return c
}

// slot index of the packet of age j (0 = newest)
func zzAge(tail, capacity, j int) int { return ((tail-1-j)%capacity + capacity) % capacity }

func H_C05_StoreStep() {
	capacity := 1 + v.Choice("cap", v.Param("Cmax"))
	L := 1 + v.Choice("len", zzRingLen)
	c := zzArbitraryRing(capacity)
	tail := int(v.Concrete(int(c.tail)))
	pre := make([]zzSlot, capacity)
	for i := range pre {
		pre[i] = zzSlotOf(&c.entries[i])
	}
	s, ts, m := v.U16("seqno"), v.U32("ts"), v.Bool("marker")
	buf := v.Bytes("buf", L)
	_, idx := c.Store(s, ts, v.Bool("kf"), m, buf)
	v.Assert(int(idx) == tail, "Store uses the slot at tail, the oldest one")
	v.Assert(int(c.tail) == (tail+1)%capacity && len(c.entries) == capacity, "and advances tail by one")
	for i := 0; i < capacity; i++ {
		got := zzSlotOf(&c.entries[i])
		if i == tail {
			want := uint16(L)
			if m {
				want |= 0x8000
			}
			ok := v.And3(got.seqno == s, got.lam == want, got.ts == ts)
			for k := 0; k < L; k++ {
				ok = v.And(ok, got.b[k] == buf[k])
			}
			v.Assert(ok, "the slot holds exactly the packet: seqno, length, marker, timestamp, bytes")
		} else {
			v.Assert(got == pre[i], "no other slot is touched: every younger packet stays as stored")
		}
	}
	v.Reach("end")
}

func H_C05_GetStep() {
	capacity := 1 + v.Choice("cap", v.Param("Cmax"))
	c := zzArbitraryRing(capacity)
	q := v.U16("q")
	res := make([]byte, BufSize)
	n := c.Get(q, res)
	exists := false
	match := false
	for i := 0; i < capacity; i++ {
		e := zzSlotOf(&c.entries[i])
		has := v.And(e.seqno == q, e.lam != 0)
		exists = v.Or(exists, has)
		same := v.And(has, n == e.lam&0x7FFF)
		for k := 0; k < zzRingLen; k++ {
			same = v.And(same, v.Or(uint16(k) >= n, res[k] == e.b[k]))
		}
		match = v.Or(match, same)
	}
	v.Assert((n > 0) == exists, "Get finds a packet exactly if some slot holds that seqno")
	v.Assert(v.Implies(n > 0, match), "and returns that slot's length and bytes exactly")
	for k := zzRingLen; k < zzRingLen+4; k++ {
		v.Assert(res[k] == 0, "Get writes nothing beyond the packet")
	}
	v.Assert(c.Get(q, nil) == n, "the size query agrees")
	v.Reach("end")
}

func H_C05_ResizeStep() {
	capacity := 1 + v.Choice("cap", v.Param("Cmax"))
	newcap := 1 + v.Choice("newcap", v.Param("Cmax")+1)
	cond := v.Choice("cond", 2) == 1
	c := zzArbitraryRing(capacity)
	tail := int(v.Concrete(int(c.tail)))
	pre := make([]zzSlot, capacity)
	for i := range pre {
		pre[i] = zzSlotOf(&c.entries[i])
	}
	if cond {
		if !c.ResizeCond(newcap) {
			same := len(c.entries) == capacity && int(c.tail) == tail
			v.Assert(same, "a refused ResizeCond leaves the ring unchanged")
			for i := 0; same && i < capacity; i++ {
				v.Assert(zzSlotOf(&c.entries[i]) == pre[i], "a refused ResizeCond leaves the ring unchanged")
			}
			v.Reach("refused")
			return
		}
	} else {
		c.Resize(newcap)
	}
	v.Assert(len(c.entries) == newcap && int(c.tail) < newcap, "the ring has the requested capacity and tail lies inside it")
	nt := int(v.Concrete(int(c.tail)))
	keep := capacity
	if newcap < keep {
		keep = newcap
	}
	for j := 0; j < keep; j++ {
		v.Assert(zzSlotOf(&c.entries[zzAge(nt, newcap, j)]) == pre[zzAge(tail, capacity, j)], "a resize keeps, in order and byte-exactly, the most recent min(old,new) packets")
	}
	// what is not a kept packet is an empty slot (so that it can never shadow one)
	for j := keep; j < newcap; j++ {
		v.Assert(c.entries[zzAge(nt, newcap, j)].lengthAndMarker == 0, "new slots are empty")
	}
	v.Reach("end")
}
