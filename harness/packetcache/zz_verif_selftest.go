//go:build verif || verifreplay

package packetcache

import v "github.com/jech/galene/zzverif"

// Self-test harnesses: validation of the TOOL, not evidence for a property.
// Each "..._Twin" must be reported violated; if it is not, the engine has
// lost sensitivity (this is how the if-conversion bug of DESIGN S.2 would
// have been caught at once).

// concrete vectors (from packetcache_test.go: TestToBitmap / TestBitmap shapes)
func H_Self_Concrete() {
	first, bm, rem := ToBitmap([]uint16{42, 44, 45, 60, 100})
	v.Assert(first == 42 && bm == 0b110 && len(rem) == 2 && rem[0] == 60, "ToBitmap concrete vector")
	c := New(4)
	c.Store(10, 0, false, false, []byte{1, 2, 3})
	c.Store(12, 0, false, true, []byte{4, 5})
	buf := make([]byte, BufSize)
	n := c.Get(12, buf)
	v.Assert(n == 2 && buf[0] == 4 && buf[1] == 5, "Get concrete vector")
	ok, f, b := c.BitmapGet(12)
	v.Assert(ok && f == 11 && b == 0, "BitmapGet concrete vector")
	v.Reach("end")
}

// the loop-inside-a-converted-region case
func H_Self_LoopMerge() {
	list := []uint16{v.U16("l0"), 0}
	d := v.U16("d")
	v.Assume(d >= 1 && d < 0x1000)
	list[1] = list[0] + d
	_, bm, rem := ToBitmap(list)
	v.Assert(v.Implies(d <= 16, bm == 1<<(d-1) && len(rem) == 0), "near successor is in the bitmap")
	v.Assert(v.Implies(d > 16, bm == 0 && len(rem) == 1), "far successor remains")
	v.Reach("end")
}

func H_Self_LoopMerge_Twin() {
	list := []uint16{v.U16("l0"), 0}
	d := v.U16("d")
	v.Assume(d >= 1 && d < 0x1000)
	list[1] = list[0] + d
	_, bm, _ := ToBitmap(list)
	v.Assert(bm == 0, "TWIN: must fail (d<=16 sets a bit)")
	v.Reach("end")
}

// symbolic arithmetic, wraparound, summarised callee
func H_Self_Compare() {
	a, b := v.U16("a"), v.U16("b")
	v.Assert(compare(a, a) == 0, "reflexive")
	v.Assert(v.Implies(a != b && uint16(b-a) < 0x8000, compare(a, b) < 0), "ahead in the half space")
	v.Assert(seqnoInvalid(a, a+0x101) && !seqnoInvalid(a, a+0x100), "boundary of seqnoInvalid")
	v.Reach("end")
}

func H_Self_Compare_Twin() {
	a, b := v.U16("a"), v.U16("b")
	v.Assert(v.Implies(a < b, compare(a, b) < 0), "TWIN: must fail (numeric order is not modular order)")
	v.Reach("end")
}

// state merging at function return + heap
func H_Self_Merge_Twin() {
	c := New(2)
	s := v.U16("s")
	c.Store(s, 0, false, false, []byte{9})
	c.Store(s+1, 0, false, false, []byte{8})
	c.Store(s+2, 0, false, false, []byte{7})
	buf := make([]byte, BufSize)
	v.Assert(c.Get(s, buf) == 1, "TWIN: must fail (capacity 2: the first packet was overwritten)")
	v.Reach("end")
}

// implicit panic detection
func H_Self_Panic_Twin() {
	l := make([]uint16, 3)
	i := v.U8("i")
	v.Assume(i <= 3)
	l[i] = 1 // TWIN: index 3 is out of range
	v.Reach("end")
}
