//go:build verifreplay

package zzverif

import (
	"encoding/json"
	"fmt"
	"io"
	"os"
	"strconv"
	"testing"
	"time"
)

type ghostData struct {
	Pairs [][2]uint64 `json:"pairs"`
}

type replayFile struct {
	Property   string               `json:"property"`
	Obligation string               `json:"obligation"`
	Harness    string               `json:"harness"`
	Choices    []int                `json:"choices"`
	Values     map[string]uint64    `json:"values"`
	Params     map[string]int       `json:"params"`
	Ghost      map[string]ghostData `json:"ghost"`
	Kind       string               `json:"kind"`
	Failed     string               `json:"failed"`
}

var (
	rf        replayFile
	choicePos int
	missing   []string
)

type assumeFalse struct{}
type assertFailed struct{ msg string }

func val(name string) uint64 {
	v, ok := rf.Values[name]
	if !ok {
		missing = append(missing, name)
	}
	return v
}

func U8(name string) uint8   { return uint8(val(name)) }
func U16(name string) uint16 { return uint16(val(name)) }
func U32(name string) uint32 { return uint32(val(name)) }
func U64(name string) uint64 { return val(name) }
func Int(name string) int    { return int(val(name)) }
func Bool(name string) bool  { return val(name) != 0 }
func Bytes(name string, n int) []byte {
	b := make([]byte, n)
	for i := range b {
		b[i] = byte(val(name + "[" + strconv.Itoa(i) + "]"))
	}
	return b
}
func String(name string, n int) string { return string(Bytes(name, n)) }
func Idx(name string, i int) string    { return name + "[" + strconv.Itoa(i) + "]" }

func Choice(name string, n int) int {
	if choicePos < len(rf.Choices) {
		c := rf.Choices[choicePos]
		choicePos++
		return c
	}
	choicePos++
	return 0
}

func Assume(c bool) {
	if !c {
		panic(assumeFalse{})
	}
}
func Assert(c bool, msg string) {
	if !c {
		panic(assertFailed{msg})
	}
}
func Reach(label string) {}
func Unwind(n int)       {}
func SplitLimit(n int)   {}

func And(a, b bool) bool     { return a && b }
func And3(a, b, c bool) bool { return a && b && c }
func Or(a, b bool) bool      { return a || b }
func Or3(a, b, c bool) bool  { return a || b || c }
func Implies(a, b bool) bool { return !a || b }
func Iff(a, b bool) bool     { return a == b }

func IteU8(c bool, a, b uint8) uint8 {
	if c {
		return a
	}
	return b
}
func IteU16(c bool, a, b uint16) uint16 {
	if c {
		return a
	}
	return b
}
func IteU32(c bool, a, b uint32) uint32 {
	if c {
		return a
	}
	return b
}
func IteU64(c bool, a, b uint64) uint64 {
	if c {
		return a
	}
	return b
}
func IteInt(c bool, a, b int) int {
	if c {
		return a
	}
	return b
}
func Concrete(x int) int { return x }

// Param returns the bound recorded in the counterexample file.
func Param(name string) int { return rf.Params[name] }

type Ghost struct {
	m    map[uint64]uint64
	mask uint64
	vm   uint64
}

func NewGhost(name string, iw, w int) *Ghost {
	g := &Ghost{m: map[uint64]uint64{}, mask: ^uint64(0), vm: ^uint64(0)}
	if iw < 64 {
		g.mask = (uint64(1) << uint(iw)) - 1
	}
	if w < 64 {
		g.vm = (uint64(1) << uint(w)) - 1
	}
	for _, p := range rf.Ghost[name].Pairs {
		g.m[p[0]] = p[1]
	}
	return g
}
func (g *Ghost) Get(i uint64) uint64    { return g.m[i&g.mask] }
func (g *Ghost) Set(i uint64, v uint64) { g.m[i&g.mask] = v & g.vm }
func Note(s string)                     { fmt.Println("VERIF-NOTE:", s) }

// RunReplay runs the harness named in $VERIF_REPLAY and reports what happened
// on one machine-readable line.
func RunReplay(t *testing.T, harnesses map[string]func()) {
	path := os.Getenv("VERIF_REPLAY")
	if path == "" {
		t.Skip("VERIF_REPLAY not set")
	}
	data, err := os.ReadFile(path)
	if err != nil {
		t.Fatal(err)
	}
	if err := json.Unmarshal(data, &rf); err != nil {
		t.Fatal(err)
	}
	h := harnesses[rf.Harness]
	if h == nil {
		fmt.Printf("VERIF-REPLAY-RESULT: no-harness %s\n", rf.Harness)
		return
	}
	func() {
		defer func() {
			r := recover()
			switch x := r.(type) {
			case nil:
				fmt.Printf("VERIF-REPLAY-RESULT: ok\n")
			case assumeFalse:
				fmt.Printf("VERIF-REPLAY-RESULT: assume-false\n")
			case assertFailed:
				fmt.Printf("VERIF-REPLAY-RESULT: assert-failed %s\n", x.msg)
			default:
				fmt.Printf("VERIF-REPLAY-RESULT: panic %v\n", r)
			}
		}()
		h()
	}()
	if len(missing) > 0 {
		fmt.Printf("VERIF-REPLAY-MISSING: %v\n", missing)
	}
}

// ---- crash points (native side) ----
//
// The source files named in the obligation's crash_files are overlaid for the
// replay by copies in which os.OpenFile/CreateTemp/Remove/Rename/WriteFile and
// json.NewEncoder are replaced by the wrappers below (engine/hooks.go).  Each
// wrapper is a crash point: when the selected one is reached it panics with
// crashSignal, which Crashable recovers; from then on every wrapper refuses to
// touch the disk, so deferred clean-ups that run while the panic unwinds
// cannot do what a dead process could not have done.

type crashSignal struct{}

var (
	crashArmed bool
	crashAt    int
	fsOps      int
	crashDead  bool
)

var errCrashed = fmt.Errorf("process has crashed")

func Crashable(k int, op func()) (crashed bool) {
	crashArmed, crashAt, fsOps, crashDead = true, k, 0, false
	defer func() {
		crashArmed = false
		dead := crashDead
		crashDead = false
		if r := recover(); r != nil {
			if _, ok := r.(crashSignal); ok && dead {
				crashed = true
				return
			}
			panic(r)
		}
	}()
	op()
	return false
}

func FSOps() int { return fsOps }

// fsPoint reports false if the process is dead (the caller must do nothing).
func fsPoint() bool {
	if crashDead {
		return false
	}
	if !crashArmed {
		return true
	}
	if fsOps == crashAt {
		crashDead = true
		panic(crashSignal{})
	}
	fsOps++
	return true
}

func OsOpenFile(name string, flag int, perm os.FileMode) (*os.File, error) {
	if !fsPoint() {
		return nil, errCrashed
	}
	return os.OpenFile(name, flag, perm)
}

func OsCreateTemp(dir, pattern string) (*os.File, error) {
	if !fsPoint() {
		return nil, errCrashed
	}
	return os.CreateTemp(dir, pattern)
}

func OsRemove(name string) error {
	if !fsPoint() {
		return errCrashed
	}
	return os.Remove(name)
}

func OsRename(from, to string) error {
	if !fsPoint() {
		return errCrashed
	}
	return os.Rename(from, to)
}

func OsWriteFile(name string, data []byte, perm os.FileMode) error {
	if !fsPoint() {
		return errCrashed
	}
	return os.WriteFile(name, data, perm)
}

// Encoder wraps json.Encoder: every Encode is one write, hence one crash point.
type Encoder struct{ *json.Encoder }

func NewEncoder(w io.Writer) *Encoder { return &Encoder{json.NewEncoder(w)} }

func (e *Encoder) Encode(v any) error {
	if !fsPoint() {
		return errCrashed
	}
	return e.Encoder.Encode(v)
}

func Tick() { time.Sleep(12 * time.Millisecond) }
