//go:build verif

// Package zzverif declares the intrinsics that harnesses use.  Under the
// `verif` tag the bodies are never executed: the symbolic executor (gosmt)
// intercepts every call by name.  Under `verifreplay` (verif_replay.go) the
// same API reads a counterexample file so that the very same harness runs
// natively against the real build.
package zzverif

func U8(name string) uint8            { return 0 }
func U16(name string) uint16          { return 0 }
func U32(name string) uint32          { return 0 }
func U64(name string) uint64          { return 0 }
func Int(name string) int             { return 0 }
func Bool(name string) bool           { return false }
func Bytes(name string, n int) []byte { return make([]byte, n) }
func String(name string, n int) string {
	return string(make([]byte, n))
}

// Idx builds the name "name[i]".
func Idx(name string, i int) string { return name }

// Choice returns a concrete value in [0,n): the executor explores all of them
// (and may distribute them over workers).
func Choice(name string, n int) int { return 0 }

func Assume(c bool)             {}
func Assert(c bool, msg string) {}
func Reach(label string)        {}
func Unwind(n int)              {}
func SplitLimit(n int)          {}

// Branch-free boolean connectives (both operands are always evaluated).
func And(a, b bool) bool     { return a && b }
func And3(a, b, c bool) bool { return a && b && c }
func Or(a, b bool) bool      { return a || b }
func Or3(a, b, c bool) bool  { return a || b || c }
func Implies(a, b bool) bool { return !a || b }
func Iff(a, b bool) bool     { return a == b }

func IteU8(c bool, a, b uint8) uint8 {
	if c {
		return a
	}
	return b
}
func IteU16(c bool, a, b uint16) uint16 {
	if c {
		return a
	}
	return b
}
func IteU32(c bool, a, b uint32) uint32 {
	if c {
		return a
	}
	return b
}
func IteU64(c bool, a, b uint64) uint64 {
	if c {
		return a
	}
	return b
}
func IteInt(c bool, a, b int) int {
	if c {
		return a
	}
	return b
}

// Concrete forces a symbolic integer to a concrete value (the executor forks
// over all feasible values, bounded by SplitLimit).
func Concrete(x int) int { return x }

// Ghost is a total map from iw-bit indices to w-bit values that is part of
// the arbitrary pre-state (an SMT array).
type Ghost struct{ _ int }

func NewGhost(name string, iw, w int) *Ghost  { return &Ghost{} }
func (g *Ghost) Get(i uint64) uint64          { return 0 }
func (g *Ghost) Set(i uint64, v uint64)       {}
func Note(s string)                           {}

// Param returns the tier-specific bound from the obligation's spec.
func Param(name string) int { return 0 }

// ---- crash points ----

// Crashable runs op.  If k >= 0 and op performs more than k file-system
// mutations (OpenFile, CreateTemp, Remove, Rename, Encoder.Encode,
// WriteFile), the process "crashes" immediately before mutation number k
// (counting from 0): op is abandoned there, no deferred call runs, every
// lock is gone.  Reports whether the crash happened.  What is on disk then is
// what a restarted server finds.
func Crashable(k int, op func()) bool {
	crashBegin(k)
	op()
	return crashEnd()
}

func crashBegin(k int) {}
func crashEnd() bool   { return false }

// FSOps is the number of file-system mutations executed inside the last Crashable.
func FSOps() int { return 0 }

// Tick lets file modification times move on between two writes (natively a
// short sleep: modification times have the granularity of the kernel clock
// tick; the ghost file system moves mtime on every modification anyway).
func Tick() {}
