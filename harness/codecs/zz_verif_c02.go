//go:build verif || verifreplay

package codecs

import (
	"github.com/pion/rtp"
	pcodecs "github.com/pion/rtp/codecs"

	v "github.com/jech/galene/zzverif"
)

var c02codecs = []string{"video/vp8", "Video/VP8", "video/vp9", "video/h264", "video/av1", "audio/opus", ""}

// H_C02_Rewrite: frame condition of RewritePacket for every packet of length
// L, every codec, every seqno, marker request and picture-id delta, with
// pion's independent RTP and VP8 parsers as the oracle for what the bytes mean.
func H_C02_Rewrite() {
	codec := c02codecs[v.Choice("codec", v.Param("codecs"))]
	// header shape, chosen concretely so that the work spreads over the workers:
	// CSRC count, header extension (none / present with 0 or 1 words), payload length
	cc := v.Choice("cc", v.Param("ccmax")+1)
	ext := v.Choice("ext", 3)
	isVP8 := codec == "video/vp8" || codec == "Video/VP8"
	// VP8 payload-descriptor shape (concrete): 0 = no extension octet; else X=1 and
	// bits of d-1 = I, L, T|K, M.  Other codecs: a plain payload.
	d := 0
	if isVP8 {
		d = v.Choice("desc", 17)
	}
	dlen := 1
	hasI, hasL, hasTK, hasM := false, false, false, false
	if d > 0 {
		hasI, hasL, hasTK, hasM = (d-1)&1 != 0, (d-1)&2 != 0, (d-1)&4 != 0, (d-1)&8 != 0
		dlen = 2
		if hasI {
			dlen++
			if hasM {
				dlen++
			}
		}
		if hasL {
			dlen++
		}
		if hasTK {
			dlen++
		}
	}
	plen := dlen + v.Choice("extra", v.Param("extra")+1)
	hdr := 12 + 4*cc
	if ext > 0 {
		hdr += 4 + 4*(ext-1)
	}
	L := hdr + plen
	data := v.Bytes("data", L)
	// version 2, the chosen padding bit, X bit and CSRC count
	pad := v.Choice("pad", 2)
	want0 := byte(0x80) | byte(cc) | byte(pad<<5)
	if ext > 0 {
		want0 |= 0x10
	}
	v.Assume(data[0] == want0)
	if ext > 0 {
		v.Assume(data[12+4*cc+2] == 0 && data[12+4*cc+3] == byte(ext-1))
		if v.Param("extprofiles") == 0 {
			// generic extension profile only (pion parses the RFC 8285 one/two-byte
			// profiles element by element, which RewritePacket never looks at)
			prof := uint16(data[12+4*cc])<<8 | uint16(data[12+4*cc+1])
			v.Assume(prof != 0xBEDE && prof != 0x1000)
		}
	}
	if isVP8 {
		v.Assume((data[hdr]&0x80 != 0) == (d > 0))
		if d > 0 {
			b := data[hdr+1]
			v.Assume((b&0x80 != 0) == hasI && (b&0x40 != 0) == hasL && (b&0x20 != 0) == hasTK && v.Implies(b&0x10 != 0, hasTK))
			if hasI {
				v.Assume((data[hdr+2]&0x80 != 0) == hasM)
			}
		}
	}
	orig := make([]byte, L)
	copy(orig, data)
	setMarker := v.Bool("setMarker")
	seqno := v.U16("seqno")
	delta := v.U16("delta")

	err := RewritePacket(codec, data, setMarker, seqno, delta)

	v.Assert(len(data) == L, "the packet length never changes")
	i := v.Int("i") // Skolem byte index
	v.Assume(i >= 0 && i < L)
	if err != nil {
		v.Assert(v.Implies(data[i] != orig[i], i >= 1 && i <= 3), "a refused rewrite touched nothing but the seqno/marker octets")
		v.Reach("refused")
		return
	}
	v.Assert(data[2] == byte(seqno>>8) && data[3] == byte(seqno), "the sequence number is the requested one")
	want1 := orig[1]
	if setMarker {
		want1 |= 0x80
	}
	v.Assert(data[1] == want1, "the marker bit is only ever set, and only on request; payload type untouched")
	v.Assert(data[0] == orig[0], "version/padding/extension/CSRC-count octet untouched")
	v.Assert(v.Implies(i >= 4 && i < 12, data[i] == orig[i]), "timestamp and SSRC untouched")

	if !isVP8 || delta == 0 {
		v.Assert(v.Implies(i >= 4, data[i] == orig[i]), "nothing else changes for other codecs or a zero delta")
		v.Reach("untouched")
		return
	}
	// VP8 with a non-zero delta: what do the bytes mean, according to pion?
	var h rtp.Header
	n, herr := h.Unmarshal(orig)
	if herr != nil {
		v.Reach("pion-rejects-header")
		return
	}
	var before pcodecs.VP8Packet
	payload := orig[n:]
	if h.Padding {
		// pion strips the padding from the payload; RewritePacket never looks at it
		v.Reach("padding")
		return
	}
	if _, perr := before.Unmarshal(payload); perr != nil {
		// not a well-formed VP8 payload: the property speaks of well-formed packets;
		// still, nothing outside the descriptor may change
		v.Assert(v.Implies(i >= n+4, data[i] == orig[i]), "even for a malformed descriptor only descriptor octets can change")
		v.Reach("pion-rejects-vp8")
		return
	}
	var h2 rtp.Header
	n2, herr2 := h2.Unmarshal(data)
	v.Assert(herr2 == nil && n2 == n, "the rewritten packet has the same RTP header length")
	var after pcodecs.VP8Packet
	_, perr2 := after.Unmarshal(data[n2:])
	v.Assert(perr2 == nil, "the rewritten payload is still well-formed VP8")
	v.Assert(after.X == before.X && after.N == before.N && after.S == before.S && after.PID == before.PID &&
		after.I == before.I && after.L == before.L && after.T == before.T && after.K == before.K &&
		after.TL0PICIDX == before.TL0PICIDX && after.TID == before.TID && after.Y == before.Y && after.KEYIDX == before.KEYIDX,
		"every VP8 descriptor field other than the picture id is unchanged")
	v.Assert(len(after.Payload) == len(before.Payload), "the VP8 payload length is unchanged")
	if before.I == 0 {
		v.Assert(v.Implies(i >= 4, data[i] == orig[i]), "no picture id present: nothing changes")
		v.Reach("vp8-no-pid")
		return
	}
	pidOff := n + 2
	if payload[2]&0x80 != 0 {
		v.Assert(after.PictureID == (before.PictureID+delta)&0x7FFF, "15-bit picture id shifted by delta modulo 2^15")
		v.Assert(v.Implies(i >= 4 && i != pidOff && i != pidOff+1, data[i] == orig[i]), "only the two picture-id octets change")
		v.Assert(data[pidOff]&0x80 != 0, "the M bit stays set")
		v.Reach("vp8-pid15")
	} else {
		v.Assert(after.PictureID == (before.PictureID+delta)&0x7F, "7-bit picture id shifted by delta modulo 2^7")
		v.Assert(v.Implies(i >= 4 && i != pidOff, data[i] == orig[i]), "only the picture-id octet changes")
		v.Assert(data[pidOff]&0x80 == 0, "the M bit stays clear")
		v.Reach("vp8-pid7")
	}
}

// H_C12_Flags / Rewrite / Keyframe / Dimensions: no input makes the packet
// classifiers and the rewriter panic (index/slice out of range, nil
// dereference): every buffer of length 0..Lmax, every codec name.
func H_C12_Flags() {
	codec := c02codecs[v.Choice("codec", len(c02codecs))]
	L := v.Choice("L", v.Param("Lmax")+1)
	buf := v.Bytes("buf", L)
	PacketFlags(codec, buf)
	v.Reach("end")
}

func H_C12_Rewrite() {
	codec := c02codecs[v.Choice("codec", len(c02codecs))]
	L := v.Choice("L", v.Param("Lmax")+1)
	buf := v.Bytes("buf", L)
	RewritePacket(codec, buf, v.Bool("m"), v.U16("seqno"), v.U16("delta"))
	v.Reach("end")
}

func H_C12_Keyframe() {
	codec := c02codecs[v.Choice("codec", len(c02codecs))]
	L := v.Choice("L", v.Param("Lmax")+1)
	p := &rtp.Packet{Payload: v.Bytes("payload", L)}
	Keyframe(codec, p)
	KeyframeDimensions(codec, p)
	v.Reach("end")
}

// H_C12_ReadPath: what readLoop does with bytes from the network: pion's RTP
// parser, then Keyframe/KeyframeDimensions on the parsed packet, then the
// down-track classifier on the raw buffer.
func H_C12_ReadPath() {
	codec := c02codecs[v.Choice("codec", len(c02codecs))]
	L := v.Choice("L", v.Param("Lmax")+1)
	buf := v.Bytes("buf", L)
	var packet rtp.Packet
	if err := packet.Unmarshal(buf); err != nil {
		v.Reach("rejected")
		return
	}
	Keyframe(codec, &packet)
	KeyframeDimensions(codec, &packet)
	PacketFlags(codec, buf)
	v.Reach("end")
}
