//go:build verif || verifreplay

package diskwriter

import (
	"github.com/jech/samplebuilder"
	"github.com/pion/rtp"
	"github.com/pion/webrtc/v4"
	"github.com/pion/webrtc/v4/pkg/media"

	"github.com/jech/galene/conn"
	v "github.com/jech/galene/zzverif"
)

type zzWritten struct {
	seqno   uint16
	payload []byte // the packet's own payload slice (not copied: aliasing is part of the question)
}

var zzPushed []zzWritten

// model of (*diskTrack).writeRTP (sample builder, keyframe gating, container):
// record what reaches the recorder.
func zzWriteRTP(t *diskTrack, p *rtp.Packet) error {
	zzPushed = append(zzPushed, zzWritten{seqno: p.SequenceNumber, payload: p.Payload})
	return nil
}

// fake publisher track with a small cache: every seqno is cached with a
// payload of plen bytes derived from the seqno.
type zzCacheTrack struct {
	plen     int
	fetched  []uint16
	kf       int
	missing  uint16 // this seqno is not in the cache
	hasMiss  bool
}

func zzPayloadByte(seqno uint16, k int) byte { return byte(seqno) ^ byte(k*7+1) }

func (u *zzCacheTrack) AddLocal(conn.DownTrack) error { return nil }
func (u *zzCacheTrack) DelLocal(conn.DownTrack) bool  { return true }
func (u *zzCacheTrack) Kind() webrtc.RTPCodecType     { return webrtc.RTPCodecTypeVideo }
func (u *zzCacheTrack) Label() string                 { return "l" }
func (u *zzCacheTrack) Codec() webrtc.RTPCodecCapability {
	return webrtc.RTPCodecCapability{MimeType: "video/vp8"}
}
func (u *zzCacheTrack) RequestKeyframe() error { u.kf++; return nil }
func (u *zzCacheTrack) GetPacket(seqno uint16, result []byte, nack bool) uint16 {
	u.fetched = append(u.fetched, seqno)
	if u.hasMiss && seqno == u.missing {
		return 0
	}
	n := 12 + u.plen
	hdr := []byte{0x80, 96, byte(seqno >> 8), byte(seqno), 0, 0, 0, 1, 0, 0, 0, 2}
	copy(result, hdr)
	for k := 0; k < u.plen; k++ {
		result[12+k] = zzPayloadByte(seqno, k)
	}
	return uint16(n)
}

func zzPacket(seqno uint16, plen int) []byte {
	b := []byte{0x80, 96, byte(seqno >> 8), byte(seqno), 0, 0, 0, 1, 0, 0, 0, 2}
	for k := 0; k < plen; k++ {
		b = append(b, zzPayloadByte(seqno, k))
	}
	return b
}

// H_C20_Gap: a packet arrives after a gap: the recorder recovers exactly
// the missing packets from the publisher's cache, in ascending order, once
// each, before the arriving packet, and each recovered packet is
// byte-identical to the cached one (length and payload); the caller's buffer
// is copied, not retained.
func H_C20_Gap() {
	zzPushed = nil
	plen := 1 + v.Choice("plen", 3)
	up := &zzCacheTrack{plen: plen}
	if v.Choice("miss", 2) == 1 {
		up.hasMiss = true
		up.missing = v.U16("missing")
	}
	t := &diskTrack{remote: up, conn: &diskConn{}, builder: &samplebuilder.SampleBuilder{}}
	last := v.U16("last")
	t.lastSeqno = some(uint32(last))
	gap := uint16(1 + v.Choice("gap", v.Param("G"))) // arriving packet is last+gap
	s := last + gap
	buf := zzPacket(s, plen)
	n, err := t.Write(buf)
	v.Assert(err == nil && n == len(buf), "the packet is accepted")
	// what was asked from the cache
	v.Assert(len(up.fetched) == int(gap)-1, "exactly the missing packets are looked up")
	for i, f := range up.fetched {
		v.Assert(f == last+1+uint16(i), "in ascending order, once each")
	}
	// what reached the recorder
	want := 0
	for i := uint16(1); i < gap; i++ {
		q := last + i
		if up.hasMiss && q == up.missing {
			continue
		}
		v.Assert(want < len(zzPushed), "every packet found in the cache reaches the recorder")
		if want < len(zzPushed) {
			w := zzPushed[want]
			v.Assert(w.seqno == q, "recovered packets are written in order")
			v.Assert(len(w.payload) == plen, "a recovered packet has exactly the cached packet's length (no padding, no truncation)")
			for k := 0; k < plen && k < len(w.payload); k++ {
				v.Assert(w.payload[k] == zzPayloadByte(q, k), "and exactly its bytes")
			}
		}
		want++
	}
	v.Assert(len(zzPushed) == want+1, "then the arriving packet, and nothing else")
	if len(zzPushed) == want+1 {
		w := zzPushed[want]
		v.Assert(w.seqno == s && len(w.payload) == plen, "the arriving packet is written last, intact")
		// the builder retains packets: the caller's buffer must have been copied
		buf[12] ^= 0xFF
		v.Assert(w.payload[0] == zzPayloadByte(s, 0), "the caller's buffer is copied before the recorder retains it")
	}
	v.Assert(valid(t.lastSeqno) && uint16(value(t.lastSeqno)) == s, "the newest seqno is remembered")
	v.Reach("end")
}

// H_C20_Backward: a late or duplicate packet (backward jump) triggers no
// cache look-up and is handed to the recorder as is.
func H_C20_Backward() {
	zzPushed = nil
	up := &zzCacheTrack{plen: 2}
	t := &diskTrack{remote: up, conn: &diskConn{}, builder: &samplebuilder.SampleBuilder{}}
	last := v.U16("last")
	t.lastSeqno = some(uint32(last))
	back := v.U16("back")
	v.Assume(back < 512)
	s := last - back
	t.Write(zzPacket(s, 2))
	v.Assert(len(up.fetched) == 0, "no look-up for a late or duplicate packet")
	v.Assert(len(zzPushed) == 1 && zzPushed[0].seqno == s, "it is handed to the recorder")
	v.Assert(uint16(value(t.lastSeqno)) == last, "and does not move the newest seqno backwards")
	v.Reach("end")
}

// ---- writeBuffered: timestamp handling of complete samples ----

type zzBlock struct {
	keyframe bool
	tm       int64
	n        int
}

type zzWriter struct{ blocks []zzBlock }

func (w *zzWriter) Write(keyframe bool, timestamp int64, b []byte) (int, error) {
	w.blocks = append(w.blocks, zzBlock{keyframe, timestamp, len(b)})
	return len(b), nil
}
func (w *zzWriter) Close() error { return nil }

var zzSamples []uint32 // timestamps of the complete samples the builder will hand out
var zzClosed int

// model of (*samplebuilder.SampleBuilder).PopWithTimestamp: hand out the queued samples.
func zzPop(s *samplebuilder.SampleBuilder) (*media.Sample, uint32) {
	if len(zzSamples) == 0 {
		return nil, 0
	}
	ts := zzSamples[0]
	zzSamples = zzSamples[1:]
	return &media.Sample{Data: []byte{1, 2, 3}}, ts
}

// model of (*diskConn).close: count.
func zzConnClose(conn *diskConn) []*diskTrack { zzClosed++; return nil }

// H_C20_Timestamps: an audio track with an established origin: every
// complete sample at or after the origin (in the mod-2^32 order, so also
// across the 32-bit wrap) is written, with the time (ts-origin)/(rate/1000),
// without closing the file; a sample slightly before the origin is dropped;
// times of successive samples never decrease.
func H_C20_Timestamps() {
	zzClosed = 0
	up := &zzCacheTrack{plen: 1}
	w := &zzWriter{}
	t := &diskTrack{remote: &zzAudioTrack{up}, conn: &diskConn{}, builder: &samplebuilder.SampleBuilder{}, writer: w}
	origin := v.U32("origin")
	t.origin = some(origin)
	d1 := v.U32("d1")
	d2 := v.U32("d2")
	v.Assume(d1 < 1<<30 && d2 < 1<<30 && d1 <= d2)
	zzSamples = []uint32{origin + d1, origin + d2}
	err := t.writeBuffered(false)
	v.Assert(err == nil, "no error")
	v.Assert(zzClosed == 0, "the file is not closed while timestamps advance (also across the 2^32 wrap)")
	v.Assert(len(w.blocks) == 2, "both samples are written")
	if len(w.blocks) == 2 {
		v.Assert(w.blocks[0].tm == int64(d1/48) && w.blocks[1].tm == int64(d2/48), "at (ts-origin)/(clockrate/1000) milliseconds")
		v.Assert(w.blocks[0].tm <= w.blocks[1].tm, "timestamps never decrease within a track")
		v.Assert(w.blocks[0].n == 3 && w.blocks[1].n == 3, "with the sample's data")
	}
	// a sample slightly before the origin is dropped, not written
	back := v.U32("back")
	v.Assume(back >= 1 && back < 0x10000)
	zzSamples = []uint32{origin - back}
	t.writeBuffered(false)
	v.Assert(len(w.blocks) == 2 && zzClosed == 0, "a late sample before the origin is dropped")
	v.Reach("end")
}

type zzAudioTrack struct{ *zzCacheTrack }

func (u *zzAudioTrack) Codec() webrtc.RTPCodecCapability {
	return webrtc.RTPCodecCapability{MimeType: "audio/opus", ClockRate: 48000}
}
func (u *zzAudioTrack) Kind() webrtc.RTPCodecType { return webrtc.RTPCodecTypeAudio }
