//go:build verif || verifreplay

package token

import (
	"time"

	v "github.com/jech/galene/zzverif"
)

// refCovers is the SPECIFICATION of token scope: the token's group equals
// the target, or the token covers subgroups and its group is an ancestor of
// the target in the path hierarchy: every component of the token's group,
// in order, is a WHOLE component of the target ("a" never covers "ab").
// The root ("") is the ancestor of every group.
func refCovers(tg, g string, sub bool) bool {
	if tg == g {
		return true
	}
	if !sub {
		return false
	}
	if tg == "" {
		return true
	}
	if len(g) <= len(tg) {
		return false
	}
	// g = tg + "/" + rest : tg is made of whole leading components of g
	ok := g[len(tg)] == '/'
	for i := 0; i < len(tg); i++ {
		ok = v.And(ok, g[i] == tg[i])
	}
	return ok
}

// H_C09_Match: Stateful.match agrees with the specification for all byte
// strings (token group up to L1, target up to L2).
func H_C09_Match() {
	l1 := v.Choice("l1", v.Param("L1")+1)
	l2 := 1 + v.Choice("l2", v.Param("L2")) // the target is a group name: non-empty
	tg := v.String("tg", l1)
	g := v.String("g", l2)
	sub := v.Bool("sub")
	tok := &Stateful{Group: tg, IncludeSubgroups: sub}
	v.Assert(tok.match(g) == refCovers(tg, g, sub), "a stateful token matches exactly its own group, or (covering subgroups) the groups below it by whole path components")
	v.Reach("end")
}

// H_C09_MatchGroup: the audience test of signed tokens: the URL path
// /group/<x>/ names the group itself, or with include-subgroups an ancestor.
func H_C09_MatchGroup() {
	l1 := v.Choice("l1", v.Param("L1")+1)
	l2 := 1 + v.Choice("l2", v.Param("L2")) // the target is a group name: non-empty
	x := v.String("x", l1) // group named by the audience URL
	g := v.String("g", l2)
	sub := v.Bool("sub")
	// audience paths of the documented form /group/<x>/ ; the root is /group/
	pth := "/group/" + x + "/"
	if l1 == 0 {
		pth = "/group/"
	}
	v.Assert(matchGroup(pth, g, sub) == refCovers(x, g, sub), "a signed token's audience path covers exactly its group (or, with include-subgroups, the groups below it by whole components)")
	// any path not ending in '/' or not under /group/ never matches with subgroups
	raw := v.String("raw", v.Choice("lr", 4))
	if sub && (len(raw) == 0 || raw[len(raw)-1] != '/') {
		v.Assert(!matchGroup(raw, g, true), "malformed audience paths match nothing")
	}
	v.Reach("end")
}

// H_C09_Check: validity window and what a successful Check grants.  The
// clock is symbolic (time.Now is a contract stub: any non-decreasing
// instants); Expires / NotBefore are placed at symbolic offsets around it,
// at least one second away from every reading of the clock so that a
// counterexample replays under the real clock.
func H_C09_Check() {
	t0 := time.Now()
	hasExp := v.Bool("hasExp")
	hasNbf := v.Bool("hasNbf")
	// offsets in whole seconds (time.Unix avoids 64-bit division by 10^9, which no solver here decides)
	de := int64(v.U64("de"))
	dn := int64(v.U64("dn"))
	const year = 365 * 24 * 3600
	v.Assume(de > -year && de < year && dn > -year && dn < year)
	v.Assume((de > 2 || de < -2) && (dn > 2 || dn < -2))
	exp := time.Unix(t0.Unix()+de, 0)
	nbf := time.Unix(t0.Unix()+dn, 0)
	user := "tokuser"
	tok := &Stateful{Group: "g", Permissions: []string{"present", "message"}}
	if hasExp {
		tok.Expires = &exp
	}
	if hasNbf {
		tok.NotBefore = &nbf
	}
	if v.Bool("hasUser") {
		tok.Username = &user
	}
	u, perms, err := tok.Check("host", "g")
	t1 := time.Now()
	v.Assume(t1.Unix()-t0.Unix() <= 1) // the call takes less than the margin
	if err == nil {
		v.Assert(hasExp, "a token without expiry is never valid")
		v.Assert(de > 0, "not valid after its expiry")
		v.Assert(!hasNbf || dn < 0, "not valid before its not-before time")
		v.Assert(len(perms) == 2 && perms[0] == "present" && perms[1] == "message", "grants exactly the token's permissions")
		v.Assert((tok.Username == nil && u == "") || (tok.Username != nil && u == "tokuser"), "the username is the token's")
		v.Reach("accepted")
	} else {
		v.Assert(!hasExp || de < 0 || (hasNbf && dn > 0), "refused only when expired, not yet valid, or without expiry")
		v.Reach("refused")
	}
	_, _, err2 := tok.Check("host", "other")
	v.Assert(err2 != nil, "never valid for another group")
	v.Reach("end")
}

// model of ParseKey (base64 / big-integer / curve arithmetic: library code):
// a key parses to its identifying label.
func zzParseKey(key map[string]any) (any, error) { return key["id"], nil }

var zzKeyAlgs = []string{"HS256", "RS256", "ES256", ""} // "" = no alg declared
var zzKeyKids = []string{"", "a", "b"}                  // "" = no kid

// H_C09_KeySelect: which of a group's keys may verify a signed token.  For
// every set of two keys (each declared for one of three algorithms or none,
// with or without key id) and every token header (algorithm incl. "none"
// and mismatched ones, with or without kid), the keys handed to the
// signature check are EXACTLY those declared for the header's algorithm
// (and carrying the header's kid if it names one): a key is never used with
// an algorithm other than the one declared for it, and "none" selects nothing.
func H_C09_KeySelect() {
	var keys []map[string]any
	var kalg, kkid []string
	for i := 0; i < 2; i++ {
		a := zzKeyAlgs[v.Choice(v.Idx("kalg", i), len(zzKeyAlgs))]
		k := zzKeyKids[v.Choice(v.Idx("kkid", i), len(zzKeyKids))]
		key := map[string]any{"id": []string{"k0", "k1"}[i], "kty": "oct"}
		if a != "" {
			key["alg"] = a
		}
		if k != "" {
			key["kid"] = k
		}
		keys = append(keys, key)
		kalg = append(kalg, a)
		kkid = append(kkid, k)
	}
	alg := []string{"HS256", "RS256", "none", "HS384"}[v.Choice("alg", 4)]
	kid := []string{"", "a"}[v.Choice("kid", 2)]
	ks, err := ParseKeys(keys, alg, kid)
	v.Assert(err == nil, "selection itself does not fail")
	for i := 0; i < 2; i++ {
		want := kalg[i] == alg && (kid == "" || kkid[i] == kid)
		got := false
		for _, k := range ks {
			if s, ok := k.(string); ok && s == []string{"k0", "k1"}[i] {
				got = true
			}
		}
		v.Assert(got == want, "a key is offered to the signature check exactly if it is declared for the token's algorithm (and has the token's key id, if any)")
	}
	if alg == "none" {
		v.Assert(len(ks) == 0, "the algorithm 'none' selects no key")
	}
	v.Reach("end")
}
