//go:build verif || verifreplay

package token

import (
	"os"
	"time"

	v "github.com/jech/galene/zzverif"
)

// The token file lives in the ghost file system of the symbolic run (see
// engine/ghostfs.go) and in a real temporary directory in the native replay.

func zzTokenFile() (string, func()) {
	dir, _ := os.MkdirTemp("", "zzverif-tokens")
	return dir + "/tokens.jsonl", func() { os.RemoveAll(dir) }
}

var zzNames = []string{"t1", "t2", "t3"}

func zzMkToken(name string, expired bool) *Stateful {
	exp := time.Now().Add(24 * time.Hour)
	if expired {
		exp = time.Now().Add(-30 * 24 * time.Hour) // expired for a month: due for the sweep
	}
	return &Stateful{Token: name, Group: "g", Expires: &exp, Permissions: []string{"present"}}
}

// zzSame: do the running server (package state) and a freshly started
// server reading the same file honour exactly the same tokens?
func zzSame(filename string) bool {
	fresh := &state{filename: filename}
	ok := true
	for _, n := range zzNames {
		a, _, ea := tokens.Get(n)
		b, _, eb := fresh.Get(n)
		ok = ok && ((ea == nil) == (eb == nil))
		if ea == nil && eb == nil {
			ok = ok && a.Group == b.Group && a.Expires != nil && b.Expires != nil && a.Expires.Unix() == b.Expires.Unix()
		}
	}
	return ok
}

// one operation of the vocabulary; returns whether it reported success
func zzOp(op int, filename string) bool {
	switch op {
	case 0, 1, 2: // create t1 / t2 / t3 (t3 already expired long ago)
		_, err := Update(zzMkToken(zzNames[op], op == 2), "")
		return err == nil
	case 3, 4: // edit the expiry of t1 / t2, holding the current tag
		old, etag, err := Get(zzNames[op-3])
		if err != nil {
			return false
		}
		t := old.Clone()
		exp := time.Now().Add(48 * time.Hour)
		t.Expires = &exp
		_, err = Update(t, etag)
		return err == nil
	case 5, 6: // delete t1 / t2, holding the current tag
		_, etag, err := Get(zzNames[op-5])
		if err != nil {
			return false
		}
		return Delete(zzNames[op-5], etag) == nil
	case 7: // expiry sweep
		return Expire() == nil
	}
	return false
}

// H_C16_Durable: after every sequence of K operations (create, edit, delete,
// sweep) the tokens the server honours are exactly those a freshly started
// server reads from the file; a deleted or swept token is gone for both.
func H_C16_Durable() {
	filename, cleanup := zzTokenFile()
	defer cleanup()
	SetStatefulFilename(filename)
	K := v.Param("K")
	var ops [4]int
	for i := 0; i < K; i++ {
		ops[i] = v.Choice("op", 8)
	}
	for i := 0; i < K; i++ {
		ok := zzOp(ops[i], filename)
		v.Assert(zzSame(filename), "the running server and a freshly started one honour the same tokens")
		if ok && (ops[i] == 5 || ops[i] == 6) {
			n := zzNames[ops[i]-5]
			_, _, e1 := Get(n)
			fresh := &state{filename: filename}
			_, _, e2 := fresh.Get(n)
			v.Assert(e1 != nil && e2 != nil, "a deleted token never authorises again, also after a restart")
			v.Reach("deleted")
		}
		if ok && ops[i] == 7 {
			_, _, e1 := Get("t3")
			fresh := &state{filename: filename}
			_, _, e2 := fresh.Get("t3")
			v.Assert(e1 != nil && e2 != nil, "a token expired for more than a week is gone after the sweep, also after a restart")
		}
	}
	v.Reach("end")
}

// H_C16_Conditional: an edit or delete conditioned on a version tag succeeds
// only if nothing changed since the tag was read: two editors read the same
// tag, the first one's change is acknowledged, the second one's edit or
// delete with the same tag is refused and changes nothing.
func H_C16_Conditional() {
	filename, cleanup := zzTokenFile()
	defer cleanup()
	SetStatefulFilename(filename)
	Update(zzMkToken("t1", false), "")
	Update(zzMkToken("t2", false), "")
	_, tag, err := Get("t1")
	v.Assert(err == nil && tag != "", "the token is served with a tag")
	first := v.Choice("first", 4)
	exp := time.Now().Add(72 * time.Hour)
	edited := func(n string) *Stateful { t := zzMkToken(n, false); t.Expires = &exp; return t }
	switch first {
	case 0:
		_, err = Update(edited("t1"), tag)
	case 1:
		_, err = Update(edited("t2"), tag)
	case 2:
		err = Delete("t2", tag)
	case 3:
		_, err = Update(zzMkToken("t3", false), "") // a creation also makes a new version
	}
	v.Assert(err == nil, "the first editor, holding the current tag, succeeds")
	_, tag2, _ := Get("t1")
	if first != 2 || true {
		v.Assert(tag2 != tag, "every change yields a new tag")
	}
	second := v.Choice("second", 3)
	exp2 := time.Now().Add(96 * time.Hour)
	switch second {
	case 0:
		t := zzMkToken("t1", false)
		t.Expires = &exp2
		_, err = Update(t, tag)
	case 1:
		err = Delete("t1", tag)
	case 2:
		t := zzMkToken("t2", false)
		t.Expires = &exp2
		_, err = Update(t, tag)
		if first == 2 {
			err = ErrTagMismatch // t2 is gone: an update with a tag of a missing token is refused differently
		}
	}
	v.Assert(err != nil, "the second editor, holding the same (now stale) tag, is refused")
	t1, _, e1 := Get("t1")
	v.Assert(e1 == nil && t1.Expires.Unix() != exp2.Unix(), "and its change is not applied: the first editor's change is not overwritten")
	v.Assert(zzSame(filename), "memory and file still agree")
	// a wrong tag never works, the empty tag never overwrites
	_, e3 := Update(zzMkToken("t1", false), "")
	v.Assert(e3 != nil, "the empty tag creates but never overwrites")
	v.Reach("end")
}

// H_C16_External: external edits of the file between operations are
// honoured: when the file is removed, no token authorises any more.
func H_C16_External() {
	filename, cleanup := zzTokenFile()
	defer cleanup()
	SetStatefulFilename(filename)
	Update(zzMkToken("t1", false), "")
	Update(zzMkToken("t2", false), "")
	_, _, e0 := Get("t1")
	v.Assert(e0 == nil, "created")
	os.Remove(filename)
	_, _, e1 := Get("t1")
	_, _, e2 := Get("t2")
	l, _, _ := List("g")
	v.Assert(e1 != nil && e2 != nil && len(l) == 0, "after the token file has been removed externally no token is honoured")
	Update(zzMkToken("t3", false), "")
	fresh := &state{filename: filename}
	_, _, f1 := fresh.Get("t1")
	_, _, f3 := fresh.Get("t3")
	v.Assert(f1 != nil && f3 == nil, "and a later creation does not resurrect the removed tokens")
	v.Reach("end")
}

// zzSnapshot: what a freshly started server reading the file honours: per
// token 0 = not honoured, 1 = honoured with its original expiry, 2 = honoured
// with an edited (48 h) expiry; -1 if the file cannot be read at all.
func zzSnapshot(filename string) [3]int {
	var s [3]int
	fresh := &state{filename: filename}
	lim := time.Now().Add(36 * time.Hour)
	for i, n := range zzNames {
		t, _, err := fresh.Get(n)
		switch {
		case err != nil && !os.IsNotExist(err):
			s[i] = -1
		case err != nil:
			s[i] = 0
		case t.Expires != nil && t.Expires.After(lim):
			s[i] = 2
		default:
			s[i] = 1
		}
	}
	return s
}

// H_C16_Crash: replacing the token file is atomic.  The same operation
// (create, edit, delete, sweep) is run once to completion on one file (the
// NEW set) and once on an identical second file with a crash immediately
// before its k-th file-system mutation, for every k: what a restarted server
// then reads is the complete OLD set or the complete NEW set, and the file
// is readable.
func H_C16_Crash() {
	op := v.Choice("op", 8)
	k := v.Choice("k", v.Param("KMAX"))
	fileA, cleanupA := zzTokenFile()
	defer cleanupA()
	SetStatefulFilename(fileA)
	zzOp(0, fileA)
	zzOp(1, fileA)
	zzOp(2, fileA)
	zzOp(op, fileA)
	newSet := zzSnapshot(fileA)

	fileB, cleanupB := zzTokenFile()
	defer cleanupB()
	SetStatefulFilename(fileB)
	zzOp(0, fileB)
	zzOp(1, fileB)
	zzOp(2, fileB)
	oldSet := zzSnapshot(fileB)
	crashed := v.Crashable(k, func() { zzOp(op, fileB) })
	got := zzSnapshot(fileB)
	if crashed {
		v.Assert(got == oldSet || got == newSet, "after a crash at any step of a token-file update a restarted server finds the complete old or the complete new set of tokens")
		v.Reach("crashed")
	} else {
		v.Assert(got == newSet, "without a crash the operation has its effect")
	}
	v.Reach("end")
}
