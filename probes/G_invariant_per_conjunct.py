# Probe: is the C01 invariant inductive for in-order Map / Drop on a hand model of packetmap (MAX-slot ring)?
import itertools, time, sys
from z3 import *
MAX = 3
B = lambda v: BitVecVal(v, 16)
def cmp_(a, b):  # -1,0,1 as in compare
    return If(a == b, BitVecVal(0,8), If(Extract(15, 15, b - a) == 1, BitVecVal(1,8), BitVecVal(255,8)))
Dm = Array('Dm', BitVecSort(16), BitVecSort(16)); W = Array('W', BitVecSort(16), BoolSort())
def mk(n, last, pfx=''):
    st = dict(n=n, last=last, next=BitVec(pfx+'next', 16), delta=BitVec(pfx+'delta', 16),
              first=[BitVec(pfx+'first%d' % j, 16) for j in range(MAX)],
              count=[BitVec(pfx+'count%d' % j, 16) for j in range(MAX)],
              ed=[BitVec(pfx+'ed%d' % j, 16) for j in range(MAX)])
    return st
def order(st):  # indices oldest..newest
    n, last = st['n'], st['last']
    return [(last + 1 + k) % n for k in range(n)] if n == MAX else list(range(n))
def dist(st, x): return st['next'] - x
WIN = 0x6000
def inv(st, dm, w, ts, window=True, aslist=False):
    n, last = st['n'], st['last']
    c = []
    if n == 0:
        return And(st['delta'] == 0)   # no entries => no drops yet
    if n < MAX: c.append(BoolVal(last == n - 1))
    o = order(st)
    end = lambda j: st['first'][j] + st['count'][j]
    # head
    d0 = st['ed'][last] - st['delta']
    c.append(dist(st, end(last)) == d0)
    c.append(ULT(d0, WIN))
    for j in range(n):
        c.append(UGE(st['count'][j], 1))
        c.append(ULE(st['count'][j], dist(st, st['first'][j])))
        if window: c.append(ULT(dist(st, st['first'][j]), WIN))
    for a, b in zip(o, o[1:]):
        d = st['ed'][a] - st['ed'][b]
        gap = dist(st, end(a)) - dist(st, st['first'][b])
        c.append(UGE(d, 1)); c.append(ULT(d, WIN))
        c.append(ULE(dist(st, st['first'][b]), dist(st, end(a))))
        c.append(If(ULT(d, 8192), gap == d, UGE(gap, d)))
    for t in ts:  # instantiated link
        for j in range(n):
            mem = And(cmp_(t, st['first'][j]) >= 0, cmp_(t, end(j)) < 0)
            c.append(Implies(mem, And(dm(t) == st['ed'][j], Not(w(t)))))
    return c if aslist else And(c)
def add_mapping(st, seq):
    """returns list of (guard, newstate) after addMapping(seq, delta) + next=seq+1 for in-order Map with entries"""
    n, last = st['n'], st['last']
    res = []
    same = st['ed'][last] == st['delta']
    s1 = dict(st); s1['count'] = list(st['count']); s1['count'][last] = seq - st['first'][last] + 1; s1['next'] = seq + 1
    res.append((same, s1))
    d = st['ed'][last] - st['delta']
    ff = st['first'][last] + st['count'][last] + d
    f = If(And(ULT(d, 8192), cmp_(ff, seq) < 0), ff, seq)
    if n < MAX:
        nn, nl = n + 1, n
    else:
        nn, nl = n, (last + 1) % MAX
    s2 = dict(st); s2['n'] = nn; s2['last'] = nl
    for k in ('first', 'count', 'ed'): s2[k] = list(st[k])
    s2['first'][nl] = f; s2['count'][nl] = seq - f + 1; s2['ed'][nl] = st['delta']; s2['next'] = seq + 1
    res.append((Not(same), s2))
    return res
def win(st):
    return And([ULT(dist(st, st['first'][j]), WIN) for j in range(st['n'])] + [BoolVal(True)])
def check(name, *fs):
    s = Solver(); s.set('timeout', 60000); s.add(*fs); t = time.time(); r = s.check()
    return r, round(time.time() - t, 2), (s.model() if r == sat else None)
shapes = [(n, n - 1) for n in range(1, MAX)] + [(MAX, l) for l in range(MAX)]
seq = BitVec('seq', 16); t = BitVec('t', 16)
dm0 = lambda x: Dm[x]; w0 = lambda x: W[x]
tot = 0
for window in (True,):
  for (n, last) in shapes:
    st = mk(n, last)
    pre = inv(st, dm0, w0, [t, seq, st['next'] - 1], window)
    inorder = And(cmp_(st['next'], seq) <= 0, ULE(seq - st['next'], 8192))
    # ghost after in-order map
    inr = lambda x: ULE(x - st['next'], seq - st['next'])
    dm1 = lambda x: If(inr(x), st['delta'], Dm[x]); w1 = lambda x: And(Not(inr(x)), W[x])
    for g, s2 in add_mapping(st, seq):
        post = inv(s2, dm1, w1, [t], False, True)
        for ci, cj in enumerate(post):
            r, dt, m = check('map', pre, inorder, g, win(s2), Not(cj)); tot += dt
            print('Map in-order shape', (n, last), '->', (s2['n'], s2['last']), 'conjunct', ci, r, dt)
        if r == sat: print('   CTI', [(d, m[d]) for d in m.decls()][:30])
    # Drop(next)
    s3 = dict(st); s3['next'] = st['next'] + 1; s3['delta'] = st['delta'] - 1
    dm2 = lambda x: If(x == st['next'], st['delta'], Dm[x]); w2 = lambda x: Or(x == st['next'], W[x])
    post = inv(s3, dm2, w2, [t], False, True)
    for ci, cj in enumerate(post):
        r, dt, m = check('drop', pre, win(s3), Not(cj)); tot += dt
        print('Drop shape', (n, last), 'conjunct', ci, r, dt)
    if r == sat: print('   CTI', [(d, m[d]) for d in m.decls()][:30])
print('total solver s', round(tot, 1))
