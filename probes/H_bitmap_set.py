import time
from z3 import *
R = Array('R', BitVecSort(16), BoolSort())
valid = Bool('valid'); first = BitVec('first', 16); bm = BitVec('bm', 32); seq = BitVec('seq', 16); t = BitVec('t', 16)
def cmpv(a, b): return If(a == b, BitVecVal(0, 8), If(Extract(15, 15, b - a) == 1, BitVecVal(1, 8), BitVecVal(255, 8)))
def seqno_invalid(s, ref): return And(Not(cmpv(ref, s) < 0), UGT(ref - s, 0x100))
def bit(b, k16): return Extract(0, 0, LShR(b, ZeroExt(16, k16))) == 1
def inv(valid, first, bm, Rf, pts):
    c = []
    for p in pts:
        u = p - first
        c.append(Implies(And(valid, ULT(u, 32)), bit(bm, u) == Rf(p)))
        c.append(Implies(And(valid, UGE(u, 32), ULT(u, 0x8000)), Not(Rf(p))))
    return c
def tz32(x):  # trailing zeros of x (32 if zero)
    r = BitVecVal(32, 16)
    for i in range(31, -1, -1):
        r = If(Extract(i, i, x) == 1, BitVecVal(i, 16), r)
    return r
# code of set()
reset = Or(Not(valid), seqno_invalid(seq, first))
behind = cmpv(first, seq) > 0
d = seq - first
shift = If(UGE(d, 32), d - 31, BitVecVal(0, 16))
bm1 = LShR(bm, ZeroExt(16, shift)); f1 = first + shift
ones = If(Extract(0, 0, bm1) == 1, tz32(~bm1), BitVecVal(0, 16))
bm2 = LShR(bm1, ZeroExt(16, ones)); f2 = f1 + ones
bm3 = bm2 | (BitVecVal(1, 32) << ZeroExt(16, seq - f2))
first_p = If(reset, seq, If(behind, first, f2)); bm_p = If(reset, BitVecVal(1, 32), If(behind, bm, bm3)); valid_p = BoolVal(True)
Rpre = lambda x: R[x]
def Rpost(x):
    entering = And(ULT(x - first_p, 0x8000), UGE(x - first, 0x8000))
    return If(reset, x == seq, Or(x == seq, And(Not(entering), R[x])))
pre = inv(valid, first, bm, Rpre, [t, seq])
# realistic: stream advances by < 0x4000 per packet unless reset
pre.append(Implies(Not(reset), Or(behind, ULT(seq - first, 0x4000))))
post = inv(valid_p, first_p, bm_p, Rpost, [t])
for i, c in enumerate(post):
    s = Solver(); s.set('timeout', 120000); s.add(pre); s.add(Not(c)); t0 = time.time(); r = s.check()
    print('post conjunct', i, r, round(time.time() - t0, 2))
    if r == sat:
        m = s.model(); print({str(d): m[d] for d in m.decls() if str(d) != 'R'}, 'R[t]=', m.eval(R[t]), 'R[seq]=', m.eval(R[seq]))
