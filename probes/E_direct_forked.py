import time
from z3 import *
N=128
def cmp_ge(a, b): return Or(a == b, Extract(15, 15, b - a) == 1)
def cmp_lt(a, b): return And(a != b, Extract(15, 15, b - a) == 0)
first=[BitVec('f%d'%j,16) for j in range(N)]; count=[BitVec('c%d'%j,16) for j in range(N)]; delta=[BitVec('d%d'%j,16) for j in range(N)]
Dm=BitVec('Dm',16); W=Bool('W'); sq=BitVec('s',16)
s=Solver(); tot=0; t0=time.time()
for k in range(N):
    s.push()
    for j in range(k): s.add(Not(cmp_ge(sq, first[j])))
    s.add(cmp_ge(sq, first[k]), cmp_lt(sq, first[k]+count[k]))
    s.add(Implies(And(cmp_ge(sq, first[k]), cmp_lt(sq, first[k]+count[k])), And(Dm==delta[k], Not(W))))
    s.add(Or(sq+delta[k] != sq+Dm, W))
    r=s.check(); assert r==unsat; s.pop()
print("128 path queries", round(time.time()-t0,2),"s")
