import sys,re
def parse(s):
    toks = re.findall(r'\(|\)|[^\s()]+', s)
    def rd(i):
        if toks[i]=='(':
            l=[];i+=1
            while toks[i]!=')':
                x,i=rd(i);l.append(x)
            return l,i+1
        return toks[i],i+1
    out=[];i=0
    while i<len(toks):
        x,i=rd(i);out.append(x)
    return out
def fix(x):
    if isinstance(x,list):
        x=[fix(y) for y in x]
        if x and isinstance(x[0],list) and x[0][:2]==['_','at-most'] and x[0][2]=='1' and len(x)==3:
            return ['not',['and',x[1],x[2]]]
        return x
    return x
def pr(x):
    return '('+' '.join(pr(y) for y in x)+')' if isinstance(x,list) else x
src=open(sys.argv[1]).read()
src=re.sub(r';[^\n]*','',src)
print('(set-logic QF_ABV)')
for e in parse(src):
    e=fix(e)
    if e[0]=='set-info' : continue
    print(pr(e))
