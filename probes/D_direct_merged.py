import sys, time
from z3 import *
N = int(sys.argv[1]) if len(sys.argv) > 1 else 128
def cmp_ge(a, b): return Or(a == b, Extract(15, 15, b - a) == 1)
def cmp_lt(a, b): return And(a != b, Extract(15, 15, b - a) == 0)
I = BitVecSort(16)
first = [BitVec('first%d' % j, 16) for j in range(N)]
count = [BitVec('count%d' % j, 16) for j in range(N)]
delta = [BitVec('delta%d' % j, 16) for j in range(N)]
def rd(v, i):
    r = v[N - 1]
    for j in range(N - 2, -1, -1):
        r = If(i == j, v[j], r)
    return r
DmS = BitVec('Dm_s', 16); WS = Bool('W_s')
n = BitVec('n', 16); last = BitVec('last', 16)
s = SolverFor('QF_BV')
s.add(UGE(n, 1), ULE(n, N), ULT(last, n))
sq = BitVec('s', 16)
for j in range(N):
    mem = And(cmp_ge(sq, first[j]), cmp_lt(sq, first[j] + count[j]))
    s.add(Implies(And(ULT(BitVecVal(j, 16), n), mem), And(DmS == delta[j], Not(WS))))
i = last
ok = BoolVal(False); out = BitVecVal(0, 16); done = BoolVal(False)
for k in range(N):
    f = rd(first, i); c = rd(count, i); d = rd(delta, i)
    ge = cmp_ge(sq, f)
    hit = And(Not(done), ge, cmp_lt(sq, f + c))
    out = If(hit, sq + d, out)
    ok = Or(ok, hit)
    done = Or(done, ge)
    ni = If(i == 0, n - 1, i - 1)
    done = Or(done, ni == last)
    i = ni
s.add(ok, Or(out != sq + DmS, WS))
open("pm3_%d.smt2" % N, "w").write("(set-logic QF_BV)\n" + s.to_smt2().replace("(set-logic QF_BV)",""))
