import sys, time
from z3 import *
N = int(sys.argv[1]) if len(sys.argv) > 1 else 128
W = 16
def cmp_ge(a, b):  # compare(a,b) >= 0  <=> a==b or ((b-a)&0x8000)!=0
    return Or(a == b, Extract(15, 15, b - a) == 1)
def cmp_lt(a, b):  # compare(a,b) < 0 <=> a!=b and ((b-a)&0x8000)==0
    return And(a != b, Extract(15, 15, b - a) == 0)
first = Array('first', BitVecSort(16), BitVecSort(16))
count = Array('count', BitVecSort(16), BitVecSort(16))
delta = Array('delta', BitVecSort(16), BitVecSort(16))
n = BitVec('n', 16); last = BitVec('last', 16); nxt = BitVec('next', 16); cur = BitVec('delta_cur', 16)
s = Solver()
s.add(UGE(n, 1), ULE(n, N), ULT(last, n))
s.add(Implies(ULT(n, N), last == n - 1))
def prev(i):
    return If(i == 0, n - 1, i - 1)
# invariant over ring pairs
for j in range(N):
    jj = BitVecVal(j, 16)
    inr = ULT(jj, n)
    p = prev(jj)
    # j is not the oldest: oldest is (last+1)%n when n==N else 0
    oldest = If(n == N, If(last == n - 1, BitVecVal(0, 16), last + 1), BitVecVal(0, 16))
    d = delta[p] - delta[jj]
    s.add(Implies(And(inr, jj != oldest),
                  And(first[jj] == first[p] + count[p] + d, UGE(d, 1), ULT(d, 8192))))
    s.add(Implies(inr, And(UGE(count[jj], 1), ULT(count[jj], 16384))))
    s.add(Implies(inr, ULT(nxt - first[jj], 16384)))
    s.add(Implies(inr, ULE(first[jj] + count[jj] - first[jj], nxt - first[jj])))
s.add(nxt == first[last] + count[last] + (delta[last] - cur))
s.add(ULT(delta[last] - cur, 8192))
def direct(sq):
    i = last
    ok = BoolVal(False); out = BitVecVal(0, 16); done = BoolVal(False)
    for k in range(N):
        f = first[i]
        ge = cmp_ge(sq, f)
        hit = And(Not(done), ge, cmp_lt(sq, f + count[i]))
        out = If(hit, sq + delta[i], out)
        ok = Or(ok, hit)
        done = Or(done, ge)
        ni = If(i == 0, n - 1, i - 1)
        done = Or(done, ni == last)
        i = ni
    return ok, out
s1 = BitVec('s1', 16); s2 = BitVec('s2', 16)
s.add(ULE(nxt - s1, 8192), ULE(nxt - s2, 8192), nxt != s1, nxt != s2)
ok1, o1 = direct(s1); ok2, o2 = direct(s2)
s.add(s1 != s2, ok1, ok2, o1 == o2)
t = time.time()
s.set("timeout", 600000)
r = s.check()
print(N, r, time.time() - t)
if r == sat:
    m = s.model()
    print(m[n], m[last], m[nxt], m[s1], m[s2])
